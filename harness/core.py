"""Core of the verification harness: TLC runner, trace/verdict plumbing,
known-findings matching, evidence and replay files.

The Python side does no property reasoning.  It (gamma) builds concrete inputs,
runs the real library from the working tree of the repository, (alpha) projects
what the library did into plain JSON, and hands that to TLC.  Every verdict is
the value of a TLA+ predicate evaluated by TLC on a recorded observation.
"""
from __future__ import annotations

import hashlib
import json
import os
import re
import shutil
import subprocess
import sys
import tempfile
import time
from pathlib import Path

VERIF = Path(__file__).resolve().parent.parent
SPEC = VERIF / "spec"
REPO = Path(os.environ.get("VERIF_REPO", "/repo"))
# runs against a scratch copy (selftest, seedtest) must not touch the evidence / replay files of the real tree
SCRATCH_REPO = REPO.resolve() != Path("/repo")
JAR = "/opt/veriftools/tla/tla2tools.jar:/opt/veriftools/tla/CommunityModules-deps.jar"
NCPU = os.cpu_count() or 4


class MachineryError(Exception):
    pass


def use_repo():
    """Make `import htmltools` resolve to the working tree under test."""
    p = str(REPO)
    if sys.path[0] != p:
        sys.path.insert(0, p)
    sys.dont_write_bytecode = True
    import htmltools  # noqa

    got = Path(htmltools.__file__).resolve().parent.parent
    if got != REPO.resolve():
        raise MachineryError(f"htmltools imported from {got}, expected {REPO}")
    return htmltools


# ----------------------------------------------------------------------------
# scratch space
# ----------------------------------------------------------------------------
class Scratch:
    def __init__(self, tag: str):
        self.dir = Path(tempfile.mkdtemp(prefix=f"verif-{tag}-"))

    def sub(self, name: str) -> Path:
        p = self.dir / name
        p.mkdir(parents=True, exist_ok=True)
        return p

    def cleanup(self):
        if os.environ.get("VERIF_KEEP"):
            print(f"(scratch kept: {self.dir})")
            return
        shutil.rmtree(self.dir, ignore_errors=True)


# ----------------------------------------------------------------------------
# TLC
# ----------------------------------------------------------------------------
_STATS = re.compile(r"(\d+) states generated, (\d+) distinct states found, (\d+) states left")


class TlcResult:
    def __init__(self, out: str, rc: int, wall: float):
        self.out = out
        self.rc = rc
        self.wall = wall
        m = None
        for m in _STATS.finditer(out):
            pass
        self.generated = int(m.group(1)) if m else 0
        self.distinct = int(m.group(2)) if m else 0
        self.left = int(m.group(3)) if m else -1
        sim = re.search(r"The number of states generated: (\d+)", out)
        if sim and not m:      # -simulate: behaviours are walked, states are not stored
            self.generated = int(sim.group(1))
            self.distinct = int(sim.group(1))
            self.left = 0
        self.finished = "Model checking completed. No error has been found." in out or (
            "Finished in" in out and "Error:" not in out
        )
        inv = re.findall(r"Error: Invariant (\S+) is violated", out)
        act = re.findall(r"Error: Action property (\S+) is violated", out)
        self.violated = inv + act
        self.error = None
        if not self.violated and "Error:" in out:
            self.error = out[out.index("Error:"):][:2000]
        self.coverage = {}

    def ok(self) -> bool:
        return self.rc == 0 and not self.violated and self.error is None and self.left == 0


def run_tlc(
    scratch: Scratch,
    module: str,
    cfg: str,
    env: dict | None = None,
    workers: int | None = None,
    timeout: int = 3600,
    simulate: str | None = None,
    depth: int | None = None,
    seed: int | None = None,
    coverage: bool = False,
    heap: str = "8g",
) -> TlcResult:
    """Run TLC on spec/<module>.tla with the config file spec/mc/<cfg> (or an
    absolute path).  The spec tree is copied into the scratch directory so
    that nothing is written under /verif/spec."""
    work = sany_copy(scratch)
    cfgp = Path(cfg)
    if not cfgp.is_absolute():
        cfgp = work / "mc" / cfg
    meta = scratch.sub("meta-" + hashlib.sha1(f"{module}{cfg}{time.time()}".encode()).hexdigest()[:8])
    cmd = [
        "java", "-XX:+UseParallelGC", f"-Xmx{heap}", "-Xss64m",
        f"-Djava.io.tmpdir={meta}",          # TLC's own temporary directories go away with the scratch directory
        "-cp", JAR, "tlc2.TLC",
        "-metadir", str(meta), "-noGenerateSpecTE",
        "-workers", str(workers or NCPU),
        "-config", str(cfgp),
    ]
    if simulate:
        cmd += ["-simulate", simulate]
    if depth:
        cmd += ["-depth", str(depth)]
    if seed is not None:
        cmd += ["-seed", str(seed)]
    if coverage:
        cmd += ["-coverage", "1"]
    cmd.append(f"{module}.tla")
    e = dict(os.environ)
    e.pop("JAVA_TOOL_OPTIONS", None)
    if env:
        e.update({k: str(v) for k, v in env.items()})
    t0 = time.time()
    try:
        p = subprocess.run(cmd, cwd=work, env=e, capture_output=True, text=True, timeout=timeout)
    except subprocess.TimeoutExpired as ex:
        if simulate:
            out = (ex.stdout or b"").decode() if isinstance(ex.stdout, bytes) else (ex.stdout or "")
            r = TlcResult(out, 0, time.time() - t0)
            return r
        raise MachineryError(f"TLC timed out after {timeout}s on {module} {cfg}")
    finally:
        shutil.rmtree(meta, ignore_errors=True)
    r = TlcResult(p.stdout + p.stderr, p.returncode, time.time() - t0)
    if coverage:
        for m in re.finditer(r"<(\w+) line \d+, col \d+ to line \d+, col \d+ of module (\w+)>: (\d+):(\d+)", r.out):
            r.coverage[f"{m.group(2)}!{m.group(1)}"] = [int(m.group(3)), int(m.group(4))]
    return r


def sany_copy(scratch: Scratch) -> Path:
    work = scratch.dir / "spec"
    if not work.exists():
        shutil.copytree(SPEC, work)
        for sub in ("mc", "trace"):
            for f in (work / sub).glob("*.tla"):
                shutil.copy(f, work / f.name)
        _write_generated(work)
    return work


def _write_generated(work: Path) -> None:
    """Modules derived from the working tree at check time (never committed)."""
    from . import gamma

    names = gamma.inline_names()
    lit = ", ".join(f'"{n}"' for n in names)
    (work / "CatalogueInline.tla").write_text(
        "-------------------------- MODULE CatalogueInline --------------------------\n"
        "(* generated at check time from scripts/generate_tags.py (_INLINE_TAG_NAMES) *)\n"
        f"Inline == {{ {lit} }}\n"
        "=============================================================================\n")


def sany(scratch: Scratch, module: str) -> None:
    work = sany_copy(scratch)
    p = subprocess.run(
        ["java", "-cp", JAR, "tla2sany.SANY", f"{module}.tla"], cwd=work, capture_output=True, text=True
    )
    if p.returncode != 0 or "error" in p.stdout.lower().replace("semantic errors:\n\n", ""):
        if "*** Errors" in p.stdout or "Fatal" in p.stdout or p.returncode != 0:
            raise MachineryError(f"SANY rejected {module}:\n{p.stdout[-3000:]}")


# ----------------------------------------------------------------------------
# ndjson
# ----------------------------------------------------------------------------
def write_ndjson(path: Path, recs) -> int:
    n = 0
    with open(path, "w") as f:
        for r in recs:
            f.write(json.dumps(r, ensure_ascii=True, separators=(",", ":")) + "\n")
            n += 1
    return n


def read_ndjson(path: Path) -> list:
    out = []
    if not Path(path).exists():
        return out
    with open(path) as f:
        for line in f:
            line = line.strip()
            if line:
                out.append(json.loads(line))
    return out


def cps(s: str) -> list[int]:
    """A Python str as a sequence of code points (TLC has no character type)."""
    return [ord(c) for c in s]


def uncps(c) -> str:
    return "".join(chr(x) for x in c)


def canon(o) -> str:
    return json.dumps(o, sort_keys=True, ensure_ascii=True, separators=(",", ":"))


# ----------------------------------------------------------------------------
# known findings
# ----------------------------------------------------------------------------
def load_findings(prop: str) -> list[dict]:
    p = VERIF / "known_findings.json"
    if not p.exists():
        return []
    data = json.loads(p.read_text())
    return [f for f in data.get("findings", []) if f.get("property") == prop and f.get("status") == "open"]


def match_finding(findings: list[dict], clause: str, rec: dict) -> dict | None:
    """An open finding matches a failing case when its clause is the failing
    clause and every key of its `where` pattern equals the corresponding field
    of the record's `gen` description (dotted paths allowed)."""
    gen = rec.get("gen", {})
    for f in findings:
        if f.get("clause") not in (None, clause):
            continue
        okay = True
        for k, v in f.get("where", {}).items():
            cur = gen
            for part in k.split("."):
                cur = cur.get(part) if isinstance(cur, dict) else None
            if cur != v:
                okay = False
                break
        if okay:
            return f
    return None


# ----------------------------------------------------------------------------
# the generic pipeline
# ----------------------------------------------------------------------------
class Prop:
    """One listed property.  Subclasses fill in the fields and methods."""

    id = "C00"
    title = ""
    trace_module = ""          # spec/trace/<X>.tla, verdict-form validator
    trace_env = {}
    design_ref = ""
    assumptions: list[str] = []
    rule = ""

    def model_runs(self, tier: str) -> list[dict]:
        """[{module, cfg, export: bool, simulate/depth...}] design-level TLC runs."""
        return []

    def gens_from_export(self, lines: list, tier: str, rnd) -> list:
        return []

    def gens_random(self, tier: str, rnd) -> list:
        return []

    def execute(self, gen: dict) -> dict | None:
        raise NotImplementedError

    def nontrivial(self, rec: dict) -> bool:
        return True

    def extra_checks(self, ctx) -> None:
        pass

    # trace modules for which the repository's own test suite is used as a third trace source
    observed_from_suite: list[str] = []


class Ctx:
    def __init__(self, prop: Prop, tier: str, seed: int):
        self.prop, self.tier, self.seed = prop, tier, seed
        self.scratch = Scratch(prop.id)
        self.t0 = time.time()
        self.states = 0
        self.transitions = 0
        self.model_runs = []
        self.coverage_actions = {}
        self.violations: list[tuple[str, dict, dict]] = []   # (clause, record, verdict)
        self.known: list[tuple[dict, str, dict]] = []
        self.drift: list[dict] = []
        self.other: list[dict] = []
        self.accepted = 0
        self.evaluations = 0
        self.distinct = 0
        self.nontrivial = 0
        self.samples: list = []
        self.notes: list[str] = []
        self.exhaustive = False


def _hash_spec() -> str:
    h = hashlib.sha256()
    for f in sorted(SPEC.rglob("*")):
        if f.is_file():
            h.update(f.name.encode())
            h.update(f.read_bytes())
    return h.hexdigest()[:16]


def model_phase(ctx: Ctx) -> list:
    """Run the design-level TLC configurations; collect exported behaviours."""
    exported: list = []
    for run in ctx.prop.model_runs(ctx.tier):
        exp = ctx.scratch.dir / f"export-{run['module']}-{len(ctx.model_runs)}.ndjson"
        env = {"EXPORT_FILE": str(exp)}
        env.update(run.get("env", {}))
        r = run_tlc(
            ctx.scratch, run["module"], run["cfg"], env=env,
            simulate=run.get("simulate"), depth=run.get("depth"),
            seed=ctx.seed if run.get("simulate") else None,
            timeout=run.get("timeout", 3000), coverage=run.get("coverage", False),
            workers=run.get("workers"),
        )
        ctx.model_runs.append({
            "module": run["module"], "cfg": run["cfg"], "generated": r.generated,
            "distinct": r.distinct, "wall_s": round(r.wall, 1), "simulate": bool(run.get("simulate")),
        })
        if r.coverage:
            ctx.coverage_actions.update(r.coverage)
        if r.violated:
            raise MachineryError(
                f"the specification itself violates {r.violated} in {run['module']}/{run['cfg']} "
                f"(a design-level failure of the model, not an observation of the code):\n{r.out[-3000:]}"
            )
        if r.error or (not run.get("simulate") and not r.ok()):
            raise MachineryError(f"TLC failed on {run['module']}/{run['cfg']}:\n{r.out[-3000:]}")
        ctx.states += r.distinct
        ctx.transitions += r.generated
        if run.get("export", True):
            lines = read_ndjson(exp)
            for ln in lines:
                ln["_run"] = run.get("tag", run["module"])
            exported.extend(lines)
        if not run.get("simulate"):
            ctx.exhaustive = True
    # 16 TLC workers append their export lines in a nondeterministic order: sort, so that the cases derived from
    # them (seeds, rotations) depend on VERIF_SEED only
    exported.sort(key=canon)
    return exported


def _nontrivial(prop, r):
    # records of the object-history machine are shared by several properties: non-trivial = at least two steps
    if "steps" in r and "heap0" in r:
        return len(r["steps"]) >= 2
    return prop.nontrivial(r)


def validate_records(ctx: Ctx, recs: list[dict], module: str | None = None, env: dict | None = None) -> None:
    """Batch trace validation: TLC evaluates the property predicates on every
    recorded observation and appends exactly one verdict line per record."""
    prop = ctx.prop
    module = module or prop.trace_module
    # dedupe on everything but the provenance field
    seen: dict[str, int] = {}
    uniq: list[dict] = []
    for r in recs:
        k = canon({a: b for a, b in r.items() if a != "gen"})
        if k in seen:
            continue
        seen[k] = len(uniq)
        uniq.append(r)
    ctx.evaluations += len(recs)
    ctx.distinct += len(uniq)
    # (records of the object-history machine are shared by several properties: non-trivial = at least two steps)
    ctx.nontrivial += sum(1 for r in uniq if _nontrivial(prop, r))
    if not uniq:
        return
    n = len(ctx.model_runs)
    e = dict(prop.trace_env)
    if env:
        e.update(env)
    # JSON import in TLC is single-threaded: large batches are split over a few JVMs
    # ... and no part may be larger than a JVM can hold comfortably: a 275 MB part once drove an 8 GB JVM into
    # permanent garbage collection (a part is cut at about 90 MB of JSON; at most four JVMs run at a time)
    lines = [json.dumps({a: b for a, b in r.items() if a != "gen"}, ensure_ascii=True, separators=(",", ":")) for r in uniq]
    by_count = max(1, min(4, (len(uniq) + 3999) // 4000))
    by_bytes = (sum(map(len, lines)) + 90_000_000 - 1) // 90_000_000
    parts = max(by_count, by_bytes)
    size = (len(uniq) + parts - 1) // parts
    jobs = []
    for pi in range(parts):
        lo, hi = pi * size, min(len(uniq), (pi + 1) * size)
        if lo >= hi:
            continue
        tf = ctx.scratch.dir / f"traces-{module}-{n}-{pi}.ndjson"
        vf = ctx.scratch.dir / f"verdicts-{module}-{n}-{pi}.ndjson"
        tf.write_text("\n".join(lines[lo:hi]) + "\n")
        jobs.append((lo, tf, vf))
    del lines

    def one(job):
        lo, tf, vf = job
        ee = dict(e)
        ee.update({"TRACE_FILE": str(tf), "VERDICT_FILE": str(vf)})
        return run_tlc(ctx.scratch, module, f"{module}.cfg", env=ee, workers=max(2, NCPU // min(4, len(jobs))))

    # prepare the scratch copy of the spec before going parallel
    sany_copy(ctx.scratch)
    from concurrent.futures import ThreadPoolExecutor
    with ThreadPoolExecutor(min(4, len(jobs))) as ex:
        results = list(ex.map(one, jobs))
    by_tid = {}
    for (lo, tf, vf), r in zip(jobs, results):
        ctx.model_runs.append({"module": module, "cfg": f"{module}.cfg", "generated": r.generated,
                               "distinct": r.distinct, "wall_s": round(r.wall, 1), "trace_validation": True})
        if not r.ok():
            raise MachineryError(f"trace validation run failed ({module}):\n{r.out[-3000:]}")
        for line in read_ndjson(vf):
            if "v" in line:        # chunked verdicts of stateless observations
                for item in line["v"]:
                    v = dict(item["r"]) if isinstance(item["r"], dict) else {"fail": item["r"]}
                    v["tid"] = item["tid"] + lo
                    by_tid.setdefault(v["tid"], []).append(v)
            else:
                line["tid"] += lo
                by_tid.setdefault(line["tid"], []).append(line)
    if set(by_tid) != set(range(1, len(uniq) + 1)):
        raise MachineryError(
            f"{module}: {len(by_tid)} verdicts for {len(uniq)} traces (every trace must get exactly one verdict)")
    findings = load_findings(prop.id)
    for tid, vs in by_tid.items():
        if len(vs) != 1:
            raise MachineryError(f"{module}: trace {tid} has {len(vs)} verdict lines")
        v, rec = vs[0], uniq[tid - 1]
        clauses = v.get("fail", [])
        if isinstance(clauses, str):
            clauses = [clauses]
        mine = [c for c in clauses if c.startswith(prop.id + ":")]
        drift = [c for c in clauses if c.startswith("DRIFT")]
        other = [c for c in clauses if c not in mine and c not in drift]
        if drift:
            ctx.drift.append({"clauses": drift, "gen": rec.get("gen")})
        if other:
            ctx.other.append({"clauses": other, "gen": rec.get("gen")})
        if not mine:
            ctx.accepted += 1
            if len(ctx.samples) < 3 and _nontrivial(prop, rec):
                ctx.samples.append({"trace": _shorten(rec), "verdict": "ACCEPT"})
            continue
        for c in mine:
            f = match_finding(findings, c, rec)
            if f:
                ctx.known.append((f, c, rec))
            else:
                ctx.violations.append((c, rec, v))


def records_from_repo_tests(module: str) -> list[dict]:
    """Third trace source: run the repository's own test suite with the recording plugin (harness/pytest_trace.py,
    installed from outside, nothing in the repository changes) and return what it recorded for one trace module."""
    import subprocess
    tmp = tempfile.mkdtemp(prefix="verif-pytest-")
    out = os.path.join(tmp, "suite.ndjson")
    try:
        env = dict(os.environ, PYTHONPATH=str(VERIF) + os.pathsep + str(REPO), VERIF_TRACE_OUT=out, PYTHONDONTWRITEBYTECODE="1")
        subprocess.run([sys.executable, "-m", "pytest", "-q", "-x", "-p", "no:cacheprovider", "-p", "harness.pytest_trace"],
                       cwd=REPO, env=env, capture_output=True, text=True, timeout=600)
        recs = []
        for r in read_ndjson(out):
            if r.pop("m", None) == module:
                r["gen"] = {"kind": "observed", "source": "repository test suite under harness/pytest_trace.py"}
                recs.append(r)
        return recs
    finally:
        shutil.rmtree(tmp, ignore_errors=True)


def _shorten(o, depth=0):
    if isinstance(o, dict):
        return {k: _shorten(v, depth + 1) for k, v in list(o.items())[:12]}
    if isinstance(o, list):
        if len(o) > 24:
            return [_shorten(x, depth + 1) for x in o[:24]] + [f"... {len(o) - 24} more"]
        return [_shorten(x, depth + 1) for x in o]
    if isinstance(o, str) and len(o) > 300:
        return o[:300] + "..."
    return o


def confirm_violations(ctx: Ctx) -> None:
    """Before anything is reported, a sample of the violating cases is executed again on the working tree and judged
    again by TLC.  A violation of a deterministic library reproduces; if none of the sample does, the first verdicts came
    from a transient state of the machinery and the run is a machinery error, not a statement about the library.
    (C18 is about nondeterminism itself and is exempt.)"""
    prop = ctx.prop
    if not ctx.violations or not getattr(prop, "confirm", True):
        return
    sample, seen = [], set()
    for c, rec, v in ctx.violations:
        if c not in seen and isinstance(rec.get("gen"), dict):
            seen.add(c)
            sample.append((c, rec))
        if len(sample) >= 3:
            break
    if not sample:
        return
    def attempt(sample):
        probe = Ctx(prop, ctx.tier, ctx.seed)
        try:
            recs = []
            suite_mods = set()
            for c, rec in sample:
                g = rec["gen"]
                if g.get("kind") == "observed":
                    suite_mods.add(rec.get("_observed_module", prop.trace_module))
                    continue
                try:
                    r = prop.execute(g)
                except Exception:  # noqa
                    continue
                recs.extend(r if isinstance(r, list) else ([r] if r is not None else []))
            by_mod: dict[str, list] = {}
            for r in recs:
                by_mod.setdefault(r.pop("_module", prop.trace_module), []).append(r)
            for mod in prop.observed_from_suite if suite_mods else []:
                by_mod.setdefault(mod, []).extend(records_from_repo_tests(mod))
            for mod, rs in by_mod.items():
                validate_records(probe, rs, module=mod)
            return {c for c, _, _ in probe.violations}
        finally:
            probe.scratch.cleanup()

    again = attempt(sample) & {c for c, _ in sample}
    if not again:
        # A violation that depends on what the process did before (state the library keeps between calls) need not
        # reproduce on the first few cases; a wider sample, spread over all negative verdicts, gets a second chance.
        pool = [(c, rec) for c, rec, v in ctx.violations if isinstance(rec.get("gen"), dict)]
        step = max(1, len(pool) // 120)
        wide = pool[::step][:120]
        again = attempt(wide) & {c for c, _ in wide}
        if not again:
            raise MachineryError(
                f"{len(ctx.violations)} verdicts were negative but none of {len(sample)} + {len(wide)} sampled cases reproduced "
                f"when executed and judged again on the same tree (clauses {sorted(c for c, _ in sample)}): transient machinery state, no verdict")
    ctx.notes.append(f"violations confirmed by re-execution: {sorted(again)}")


def finish(ctx: Ctx) -> int:
    prop = ctx.prop
    wall = round(time.time() - ctx.t0, 2)
    (VERIF / "evidence").mkdir(exist_ok=True)
    replay_dir = VERIF / "replays" / (f"scratch-{os.getpid()}" if SCRATCH_REPO else "")
    replay_dir.mkdir(parents=True, exist_ok=True)
    seen_known = set()
    for f, c, rec in ctx.known:
        k = f.get("key", f.get("what"))
        if k in seen_known:
            continue
        seen_known.add(k)
        print(f"KNOWN-FINDING: property={prop.id} {f.get('what')}")
    replay_paths = []
    if ctx.violations:
        from collections import Counter
        cnt = Counter(c for c, _, _ in ctx.violations)
        print("violated clauses: " + ", ".join(f"{k} x{n}" for k, n in cnt.most_common()))
        # write replays for a spread of clauses, not only the first one
        seen_c, ordered = {}, []
        for item in ctx.violations:
            seen_c.setdefault(item[0], []).append(item)
        while len(ordered) < 20 and any(seen_c.values()):
            for k in list(seen_c):
                if seen_c[k]:
                    ordered.append(seen_c[k].pop(0))
        ctx.violations_for_replay = ordered
    for i, (c, rec, v) in enumerate(getattr(ctx, "violations_for_replay", [])[:20]):
        p = replay_dir / f"{prop.id}-{ctx.seed}-{i}.json"
        p.write_text(json.dumps({
            "property": prop.id, "clause": c, "gen": rec.get("gen"), "record": rec, "verdict": v,
            "replay_cmd": f"bin/check --replay {p}",
        }, indent=1))
        replay_paths.append(str(p))
        print(f"VIOLATION property={prop.id} replay={p}")
        print(f"  clause={c} detail={json.dumps(_shorten(v))[:600]}")
    ev = {
        "property_id": prop.id,
        "tier": ctx.tier,
        "seed": ctx.seed,
        "level": "model_checking",
        "coverage": {
            "states": ctx.states,
            "transitions": ctx.transitions,
            "traces_validated_against_impl": ctx.accepted,
            "samples": ctx.samples or [{"note": "no trace sample recorded"}],
            "evaluations": ctx.evaluations,
            "distinct_nontrivial": ctx.nontrivial,
            "distinct": ctx.distinct,
            "rule": prop.rule,
            "exhaustive": ctx.exhaustive,
            "tlc_runs": ctx.model_runs,
            "drift": len(ctx.drift),
            "drift_samples": [_shorten(d) for d in ctx.drift[:5]],
            "other_property_clauses": len(ctx.other),
            "known_findings_reproduced": len(ctx.known),
            "action_coverage": ctx.coverage_actions,
            "spec_sha": _hash_spec(),
            "notes": ctx.notes,
        },
        "assumptions": prop.assumptions,
        "wall_s": wall,
        "violations": len(ctx.violations),
    }
    if not SCRATCH_REPO:
        (VERIF / "evidence" / f"{prop.id}.json").write_text(json.dumps(ev, indent=1))
    ctx.scratch.cleanup()
    print(f"{prop.id} [{ctx.tier}] states={ctx.states} transitions={ctx.transitions} "
          f"evaluations={ctx.evaluations} distinct={ctx.distinct} accepted={ctx.accepted} "
          f"drift={len(ctx.drift)} known={len(ctx.known)} violations={len(ctx.violations)} wall={wall}s")
    return 1 if ctx.violations else 0


def run_prop(prop: Prop, tier: str, seed: int) -> int:
    import random

    ctx = Ctx(prop, tier, seed)
    if not SCRATCH_REPO:
        for old in (VERIF / "replays").glob(f"{prop.id}-*.json"):
            old.unlink(missing_ok=True)
    try:
        use_repo()
        rnd = random.Random(seed)
        exported = model_phase(ctx)
        gens = list(prop.gens_from_export(exported, tier, rnd))
        n_spec = len(gens)
        gens += list(prop.gens_random(tier, rnd))
        ctx.notes.append(f"{n_spec} cases from TLC-generated behaviours, {len(gens) - n_spec} from seeded random drivers")
        recs = []
        harness_exc = []
        t_exec = time.time()
        budget = float(os.environ.get("VERIF_EXEC_BUDGET", "300" if tier == "quick" else "21600"))
        truncated = 0
        for gi, g in enumerate(gens):
            if gi % 64 == 0 and time.time() - t_exec > budget:
                # a changed library may make every case slower and slower (unbounded growth of shared state);
                # judge what was executed and report the rest as not executed
                truncated = len(gens) - gi
                ctx.notes.append(f"execution budget of {budget:.0f}s exhausted: {truncated} of {len(gens)} cases were not executed")
                break
            try:
                r = prop.execute(g)
            except MachineryError:
                raise
            except Exception as ex:  # noqa: a driver that cannot cope with what the library did
                import traceback
                harness_exc.append((f"{type(ex).__name__}: {ex}", traceback.format_exc(limit=4), g))
                continue
            if r is None:
                continue
            if isinstance(r, list):
                recs.extend(r)
            else:
                recs.append(r)
        by_mod: dict[str, list] = {}
        for r in recs:
            by_mod.setdefault(r.pop("_module", prop.trace_module), []).append(r)
        nobs = 0
        for mod in prop.observed_from_suite:
            obs = records_from_repo_tests(mod)
            nobs += len(obs)
            by_mod.setdefault(mod, []).extend(obs)
        if prop.observed_from_suite:
            ctx.notes.append(f"{nobs} observations recorded while the repository's own test suite ran")
        for mod, rs in by_mod.items():
            validate_records(ctx, rs, module=mod)
        prop.extra_checks(ctx)
        confirm_violations(ctx)
        if harness_exc:
            ctx.notes.append(f"{len(harness_exc)} cases raised inside the driver: {harness_exc[0][0]}")
        rc = finish(ctx)
        if truncated and rc == 0:
            print(f"MACHINERY-ERROR property={prop.id}: execution budget exhausted, {truncated} cases not executed and no violation among the executed ones")
            return 2
        if harness_exc and rc == 0:
            # no verdict may be drawn from cases the driver could not execute or project
            print(f"MACHINERY-ERROR property={prop.id}: {len(harness_exc)} cases raised inside the driver, first: "
                  f"{harness_exc[0][0]}\n{harness_exc[0][1]}\ncase: {json.dumps(harness_exc[0][2])[:600]}")
            return 2
        return rc
    except MachineryError as e:
        ctx.scratch.cleanup()
        print(f"MACHINERY-ERROR property={prop.id}: {e}")
        return 2
    except BaseException:
        ctx.scratch.cleanup()
        raise


def run_replay(prop: Prop, path: str) -> int:
    data = json.loads(Path(path).read_text())
    ctx = Ctx(prop, "quick", 0)
    try:
        use_repo()
        r = prop.execute(data["gen"])
        recs = r if isinstance(r, list) else [r]
        by_mod: dict[str, list] = {}
        for r in recs:
            by_mod.setdefault(r.pop("_module", prop.trace_module), []).append(r)
        for mod, rs in by_mod.items():
            validate_records(ctx, rs, module=mod)
        for c, rec, v in ctx.violations:
            print(f"VIOLATION property={prop.id} replay={path}")
            print(f"  clause={c} detail={json.dumps(_shorten(v))[:1000]}")
        if not ctx.violations:
            print(f"replay of {path}: property {prop.id} holds on the current tree for this case")
        ctx.scratch.cleanup()
        return 1 if ctx.violations else 0
    except MachineryError as e:
        ctx.scratch.cleanup()
        print(f"MACHINERY-ERROR property={prop.id}: {e}")
        return 2
