"""Runs in a fresh interpreter (its own PYTHONHASHSEED): performs the battery's
constructions in the given order and prints one digest per construction."""
import hashlib
import json
import sys

repo, order = sys.argv[1], json.loads(sys.argv[2])
sys.path.insert(0, repo)
sys.dont_write_bytecode = True
import htmltools as H  # noqa: E402
from htmltools import tags  # noqa: E402


def dg(x):
    return hashlib.sha1(repr(x).encode("utf-8")).hexdigest()[:20]


def deps3():
    return [H.HTMLDependency(n, v, source={"subdir": "s"}, script=[{"src": n + ".js", "async": "", "defer": ""}],
                             stylesheet={"href": n + ".css", "media": "print", "title": "t"}, meta={"name": n, "content": "c"})
            for n, v in (("zeta", "1.0"), ("alpha", "2.0"), ("mid", "0.1"), ("alpha", "1.5"), ("zeta", "1.0.1"))]


def c1():
    d = deps3()
    x = tags.div(d[0], tags.span(d[1], "a"), {"class": "k", "id": "i"}, d[2], tags.p(d[3], d[4]), data_x="1", title="t")
    r = x.render()
    return dg((r["html"], [(e.name, str(e.version)) for e in r["dependencies"]]))


def c2():
    hs = [H.head_content(tags.title("x")), H.head_content("plain <b>"), H.head_content(tags.meta(name="a", content="b"), tags.link(rel="icon", href="i"))]
    return dg([h.name for h in hs])


def c3():
    d = deps3()
    doc = H.HTMLDocument(tags.body(tags.h1("t"), *d, H.head_content(tags.title("T")), H.head_content(tags.title("T"))), lang="en", class_="c")
    r = doc.render(lib_prefix="L")
    return dg((r["html"], [(e.name, str(e.version)) for e in r["dependencies"]]))


def c4():
    d = deps3()
    text = "<html><head>PH</head><body>" + "".join(x.serialize_to_script_json().get_html_string() for x in d + d[:2]) + "</body></html>"
    r = H.HTMLTextDocument(text, deps_replace_pattern="PH").render()
    return dg((r["html"], [(e.name, str(e.version)) for e in r["dependencies"]]))


def c5():
    t = tags.div({"class": "a", "style": "x:y;"}, {"class": "b"}, class_="c", style="z:w;", hidden=True, **{"data-k": "v", "aria_label": "l"})
    t.add_class("d").add_class("e", prepend=True).remove_class("b").add_style("q:r;", prepend=True)
    return dg((str(t), list(t.attrs.items()), H.css(font_size="1px", backgroundColor="red", margin=None, a_b=2)))


def c6():
    from htmltools._jsx import jsx_tag_create, jsx
    Foo = jsx_tag_create("Foo")
    x = Foo(tags.div("a", H.HTMLDependency("jd", "1.0")), "s", style="color:red;border:1px", onClick=jsx("() => 1"), data=[1, "b", {"k": None}], flag=True)
    return dg((str(x), [(e.name, str(e.version)) for e in x.tagify().get_dependencies()]))


def c7():
    # the first escaping call of a process may be for text ...
    return dg(str(tags.span("1 < 2 & 3", tags.b("x > y"))))


def c8():
    # ... or for an attribute value that holds only quotes / line breaks
    return dg(str(tags.div(tags.img(alt='say "hi"', title="it's"), data_note="line1\nline2", class_='a"b')))


def c5b():
    t = tags.div({"class": "z y"}, class_="x")
    t.add_class("w").add_class("v", prepend=True).remove_class("y")
    return dg((str(t), t.attrs["class"]))


def _pkgdoc(version):
    # a dependency served from a package directory: its URL and file mapping are derived from the package location
    d = H.HTMLDependency("pk", version, source={"package": "htmltools", "subdir": "lib/react"},
                         script={"src": "react.production.min.js"})
    r = H.HTMLDocument(tags.div("x", d)).render(lib_prefix="lib")
    m = d.source_path_map(lib_prefix="L")
    return dg((r["html"], m["href"], [t.get_html_string() for t in d.as_html_tags(lib_prefix="q")]))


def c10():
    return _pkgdoc("1.0")


def c11():
    return _pkgdoc("1.1")


def c12():
    # the json (Quarto) path: dependencies are written into the text as <script> elements and collected again
    d = deps3()
    x = tags.div(d[0], tags.span(d[1], "a"), d[2], tags.p(d[3], d[4]), H.head_content(tags.title("T")))
    old = H.html_dependency_render_mode
    try:
        H.html_dependency_render_mode = "json"
        s = str(x)
    finally:
        H.html_dependency_render_mode = old
    r = H.HTMLTextDocument("<html><head>PH</head><body>" + s + "</body></html>", deps_replace_pattern="PH").render()
    return dg((s, r["html"], [(e.name, str(e.version)) for e in r["dependencies"]]))


# objects that live as long as the process: the same page / text document is rendered every time its construction comes
# up in the schedule (a repetition renders the very same objects again)
_KEEP = {}


def _page(grown=0):
    d = deps3()
    page = tags.html(tags.head(), tags.body(tags.h1("t"), d[0], d[1], H.head_content(tags.title("T"))))
    for i in range(grown):
        page.children[1].append(tags.p("grown %d" % i), H.HTMLDependency("grown%d" % i, "1.0", source={"href": "h://g"}, script={"src": "g.js"}))
    return page


def _text():
    d = deps3()
    body = "".join(x.serialize_to_script_json().get_html_string() for x in d[:3])
    return H.HTMLTextDocument("<html><head>PH</head><body>PH" + body + "</body></html>", deps_replace_pattern="PH")


def _settings(key):
    n = _KEEP[key] = _KEEP.get(key, 0) + 1
    return ["lib", "other", "x/y"][n % 3], n % 2 == 0


def _same(a, b):
    return (a["html"] == b["html"], [(e.name, str(e.version)) for e in a["dependencies"]] == [(e.name, str(e.version)) for e in b["dependencies"]])


def c13():
    # the kept page / document rendered with the settings of this call must come out like a freshly built one
    if "page" not in _KEEP:
        _KEEP["page"] = _page()
        _KEEP["doc"] = H.HTMLDocument(_KEEP["page"], lang="en")
    prefix, iv = _settings("n13")
    # (between two uses: another tree is built from a piece of the kept page and extended; what earlier renderings
    #  returned is edited by the caller)
    other = H.Tag("section", _KEEP["page"].children[1].children)
    other.append(H.tags.p("only in the other tree"), H.head_content(tags.title("other")))
    other.render()
    if "last13" in _KEEP:
        _KEEP["last13"]["dependencies"].reverse()
        _KEEP["last13"]["dependencies"].append(H.HTMLDependency("appended-by-caller", "1.0"))
    g = _KEEP.get("g13", 0)
    kept = _KEEP["doc"].render(lib_prefix=prefix, include_version=iv)
    _KEEP["last13"] = kept
    kept2 = H.HTMLDocument(_KEEP["page"], lang="en").render(lib_prefix=prefix, include_version=iv)
    fresh = H.HTMLDocument(_page(g), lang="en").render(lib_prefix=prefix, include_version=iv)
    ok = (_same(kept, fresh), _same(kept2, fresh), str(_KEEP["page"]) == str(_page(g)))
    # the kept page GROWS through its own body tag after the kept document has rendered it with these very settings;
    # the same document object rendered again shows the page as it is now
    _KEEP["page"].children[1].append(tags.p("grown %d" % g), H.HTMLDependency("grown%d" % g, "1.0", source={"href": "h://g"}, script={"src": "g.js"}))
    _KEEP["g13"] = g + 1
    kept3 = _KEEP["doc"].render(lib_prefix=prefix, include_version=iv)
    fresh3 = H.HTMLDocument(_page(g + 1), lang="en").render(lib_prefix=prefix, include_version=iv)
    ok = ok + (_same(kept3, fresh3),)
    return dg("kept objects render like fresh ones") if ok == ((True, True), (True, True), True, (True, True)) else "KEPT-DIFFERS-FROM-FRESH"


def c14():
    if "text" not in _KEEP:
        _KEEP["text"] = _text()
    prefix, iv = _settings("n14")
    if "last14" in _KEEP:
        _KEEP["last14"]["dependencies"].reverse()
        _KEEP["last14"]["dependencies"].append(H.HTMLDependency("appended-by-caller", "1.0"))
    kept = _KEEP["text"].render(lib_prefix=prefix, include_version=iv)
    _KEEP["last14"] = {"dependencies": kept["dependencies"]}
    kept = {"html": kept["html"], "dependencies": list(kept["dependencies"])}
    fresh = _text().render(lib_prefix=prefix, include_version=iv)
    return dg("kept objects render like fresh ones") if _same(kept, fresh) == (True, True) else "KEPT-DIFFERS-FROM-FRESH"


B = {1: c1, 2: c2, 3: c3, 4: c4, 5: c5, 6: c6, 7: c7, 8: c8, 9: c5b, 10: c10, 11: c11, 12: c12, 13: c13, 14: c14}
print(json.dumps([B[c]() for c in order]))
