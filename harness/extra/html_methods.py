"""Calls every string method HTML() inherits from collections.UserString on a real HTML() value with a plain,
markup-laden argument and records what came back: the observed class (keep / escape / raw / drop) and how the
argument's text looks once the result is rendered as a child.

usage: html_methods.py <repo> <trace-file>
"""
import json
import sys

repo, out = sys.argv[1], sys.argv[2]
sys.path.insert(0, repo)
sys.dont_write_bytecode = True
import htmltools as H  # noqa: E402

ARG = "<x&>"
ESC = "&lt;x&amp;&gt;"
TW = "&amp;lt;x&amp;amp;&amp;gt;"


def h():
    return H.HTML("<b>%s{} k\tk</b>")


CALLS = {
    "upper": lambda: h().upper(), "lower": lambda: h().lower(), "strip": lambda: h().strip("<"), "lstrip": lambda: h().lstrip(),
    "rstrip": lambda: h().rstrip(), "title": lambda: h().title(), "capitalize": lambda: h().capitalize(),
    "swapcase": lambda: h().swapcase(), "casefold": lambda: h().casefold(), "slice": lambda: h()[1:5], "mul": lambda: h() * 2,
    "rmul": lambda: 2 * h(), "expandtabs": lambda: h().expandtabs(), "zfill": lambda: h().zfill(30),
    "removeprefix": lambda: h().removeprefix("<b>"), "removesuffix": lambda: h().removesuffix("</b>"),
    "translate": lambda: h().translate({ord("k"): "K"}),
    "add": lambda: h() + ARG, "radd": lambda: ARG + h(), "iadd": lambda: _iadd(),
    "mod": lambda: h() % ARG, "replace": lambda: h().replace("k", ARG), "ljust": lambda: H.HTML("<b>").ljust(6, "<"),
    "rjust": lambda: H.HTML("<b>").rjust(6, "<"), "center": lambda: H.HTML("<b>").center(7, "<"),
    "join": lambda: H.HTML("<br/>").join([ARG, ARG]), "format": lambda: h().replace("%s", "").format(ARG),
    "format_map": lambda: H.HTML("<b>{a}</b>").format_map({"a": ARG}), "fstring": lambda: f"{h()}{ARG}",
    "str": lambda: str(h()), "as_string": lambda: h().as_string(), "split": lambda: h().split("k"), "rsplit": lambda: h().rsplit("k"),
    "splitlines": lambda: H.HTML("<a>\n<b>").splitlines(), "partition": lambda: h().partition("k"), "rpartition": lambda: h().rpartition("k"),
}


def _iadd():
    x = h()
    x += ARG
    return x


def classify(res):
    parts = list(res) if isinstance(res, (list, tuple)) else [res]
    is_html = all(isinstance(p, H.HTML) for p in parts)
    text = "".join(str(p) for p in parts)
    fill = ("ljust", "rjust", "center")
    return is_html, text


recs = []
for m, f in CALLS.items():
    res = f()
    is_html, text = classify(res)
    uses_arg = m in ("add", "radd", "iadd", "mod", "replace", "join", "format", "format_map", "fstring", "ljust", "rjust", "center")
    probe_raw, probe_esc = (ARG, ESC) if m not in ("ljust", "rjust", "center") else ("<<<", "&lt;&lt;&lt;")
    if not is_html:
        cls = "drop"
    elif not uses_arg:
        cls = "keep"
    elif probe_esc in text:
        cls = "escape"
    elif probe_raw in text:
        cls = "raw"
    else:
        cls = "keep"
    # rendered as a child (each part of a list / tuple result separately)
    parts = list(res) if isinstance(res, (list, tuple)) else [res]
    rendered_text = "".join(H.tags.span(p).get_html_string()[6:-7] for p in parts)
    tw = TW if probe_raw == ARG else "&amp;lt;&amp;lt;"
    if not uses_arg:
        rendered = "absent"
    elif tw in rendered_text:
        rendered = "twice"
    elif probe_esc in rendered_text:
        rendered = "escaped"
    elif probe_raw in rendered_text:
        rendered = "raw"
    else:
        rendered = "absent"
    recs.append({"m": m, "cls": cls, "rendered": rendered})
# inherited string methods that return text and are not in the table
known = set(CALLS) | {"data", "encode", "count", "find", "rfind", "index", "rindex", "startswith", "endswith", "maketrans"}
extra = [n for n in dir(H.HTML) if not n.startswith("_") and callable(getattr(H.HTML, n)) and n not in known
         and not n.startswith("is")]
with open(out, "w") as fh:
    for r in recs:
        fh.write(json.dumps(r) + "\n")
print(json.dumps({"methods": len(recs), "not_in_table": extra}))
