"""Drives the real htmltools._util.ensure_http_server with two threads along the
interleaving TLC found (both callers pass the check before either stores), without
starting real servers, and records the linearised events for trace validation
against spec/extra/HttpServer.tla."""
from __future__ import annotations

import json
import sys
import threading


def run(repo: str, out: str, racy: bool = True) -> dict:
    sys.path.insert(0, repo)
    sys.dont_write_bytecode = True
    from htmltools import _util

    lock = threading.Lock()
    events = []

    def log(ev, **kw):
        with lock:
            events.append(dict(c=threading.current_thread().name, ev=ev, **kw))

    class Registry(dict):
        def get(self, k, d=None):
            v = dict.get(self, k, d)
            log("check", hit=v is not None)
            return v

        def __setitem__(self, k, v):
            dict.__setitem__(self, k, v)
            log("store")

        def __getitem__(self, k):
            v = dict.__getitem__(self, k)
            log("read")
            return v

    started = []
    both_checked = threading.Barrier(2) if racy else None

    def fake_start(path):
        # reached only after this caller's check missed
        if both_checked is not None:
            both_checked.wait(timeout=5)     # let the other caller pass its check too
        with lock:
            started.append(path)
            port = 40000 + len(started)
            events.append(dict(c=threading.current_thread().name, ev="start", hit=False))
        return _util._HttpServerInfo(port=port, thread=None)

    old_reg, old_start = _util._http_servers, _util.start_http_server
    _util._http_servers, _util.start_http_server = Registry(), fake_start
    ports = {}
    try:
        def caller():
            ports[threading.current_thread().name] = _util.ensure_http_server("p")
        ts = [threading.Thread(target=caller, name=n) for n in ("a", "b")]
        if racy:
            for t in ts:
                t.start()
            for t in ts:
                t.join(10)
        else:
            for t in ts:
                t.start()
                t.join(10)
    finally:
        _util._http_servers, _util.start_http_server = old_reg, old_start
    with open(out, "w") as f:
        for e in events:
            e.setdefault("hit", False)
            f.write(json.dumps(e) + "\n")
    return {"servers_started": len(started), "ports": ports, "events": len(events)}


if __name__ == "__main__":
    print(json.dumps(run(sys.argv[1], sys.argv[2], sys.argv[3] != "sequential" if len(sys.argv) > 3 else True)))
