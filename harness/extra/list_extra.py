"""Drives a real TagList through random histories that mix C14's operations with the mutators inherited from
collections.UserList, and writes one ndjson record per history for spec/extra/ListExtraTrace.tla.

usage: list_extra.py <repo> <trace-file> <n> <seed>
"""
import json
import random
import sys

repo, out, n, seed = sys.argv[1], sys.argv[2], int(sys.argv[3]), int(sys.argv[4])
sys.path.insert(0, repo)
sys.dont_write_bytecode = True
import htmltools as H  # noqa: E402


class Bad:
    pass


class Tfy:
    def __init__(self, label):
        self.label = label

    def tagify(self):
        return H.tags.span(self.label)


def conc(a):
    k, v = a["k"], a["v"]
    if k == "str":
        return v
    if k == "num":
        return {"True": True, "False": False}.get(v, None) if v in ("True", "False") else (int(v) if v.lstrip("-").isdigit() else float(v))
    if k == "html":
        return H.HTML(v)
    if k == "tag":
        return H.tags.span(id=v)
    if k == "dep":
        return H.HTMLDependency(v, "1.0")
    if k == "tfy":
        return Tfy(v)
    if k == "none":
        return None
    if k == "bad":
        return Bad()
    kids = [conc(c) for c in a["c"]]
    return kids if k == "list" else tuple(kids) if k == "tuple" else H.TagList(*kids)


def proj(x):
    out = []
    for e in list(x):
        if isinstance(e, H.HTML):
            out.append({"k": "html", "v": str(e)})
        elif isinstance(e, str):
            out.append({"k": "str", "v": e})
        elif isinstance(e, H.Tag):
            out.append({"k": "tag", "v": str(e.attrs.get("id"))})
        elif isinstance(e, H.HTMLDependency):
            out.append({"k": "dep", "v": e.name})
        elif isinstance(e, Tfy):
            out.append({"k": "tfy", "v": e.label})
        elif isinstance(e, (bool, int, float)):
            out.append({"k": "raw", "v": str(e)})
        elif e is None:
            out.append({"k": "raw", "v": "None"})
        elif isinstance(e, H.TagList):
            out.append({"k": "raw", "v": "tl"})
        elif isinstance(e, list):
            out.append({"k": "raw", "v": "list"})
        elif isinstance(e, tuple):
            out.append({"k": "raw", "v": "tuple"})
        else:
            out.append({"k": "raw", "v": "bad"})
    return out


def leaf(rnd):
    k = rnd.choice(["str", "str", "num", "html", "tag", "dep", "tfy", "none", "bad"])
    v = {"str": rnd.choice(["a", "b", ""]), "num": rnd.choice(["0", "5", "2.5", "True"]), "none": "", "bad": "o"}.get(k, k[0] + str(rnd.randint(1, 3)))
    return {"k": k, "v": v, "c": []}


def arg(rnd, depth=2):
    if depth and rnd.random() < 0.25:
        k = rnd.choice(["list", "tuple", "tl"])
        kids = [arg(rnd, depth - 1) for _ in range(rnd.randint(0, 3))]
        if k == "tl":
            kids = [c for c in kids if c["k"] != "bad" and not _hasbad(c)]
        return {"k": k, "v": "", "c": kids}
    return leaf(rnd)


def _hasbad(a):
    return a["k"] == "bad" or any(_hasbad(c) for c in a["c"])


rnd = random.Random(seed)
with open(out, "w") as fh:
    for _ in range(n):
        x = H.TagList()
        hist = []
        for _step in range(rnd.randint(1, 12)):
            act = rnd.choice(["Append", "Append", "Insert", "Extend", "Pop", "DelItem", "Remove", "Clear", "Reverse", "Copy", "SetItem", "SetItem"])
            op = {"act": act, "args": [], "i": rnd.randint(-3, 4), "j": 0, "n": 0}
            if act in ("Append", "Insert", "SetItem"):
                op["args"] = [arg(rnd)]
            elif act == "Extend":
                op["args"] = [{"k": rnd.choice(["list", "tuple"]), "v": "", "c": [arg(rnd, 1) for _ in range(rnd.randint(0, 3))]}]
            elif act == "Remove":
                # mostly something that is in the list
                cur = [e for e in proj(x) if e["k"] in ("str", "html")]
                op["args"] = [dict(rnd.choice(cur), c=[])] if cur and rnd.random() < 0.7 else [leaf(rnd)]
            old = x
            exc = "none"
            try:
                a = [conc(t) for t in op["args"]]
                if act == "Append":
                    x.append(*a)
                elif act == "Insert":
                    x.insert(op["i"], a[0])
                elif act == "Extend":
                    x.extend(a[0])
                elif act == "Pop":
                    x.pop(op["i"])
                elif act == "DelItem":
                    del x[op["i"]]
                elif act == "Remove":
                    x.remove(a[0])
                elif act == "Clear":
                    x.clear()
                elif act == "Reverse":
                    x.reverse()
                elif act == "Copy":
                    x = x.copy()
                elif act == "SetItem":
                    x[op["i"]] = a[0]
            except (TypeError, IndexError, ValueError) as ex:
                exc = type(ex).__name__
                x = old
            try:
                x.render()
                renders = True
            except Exception:  # noqa
                renders = False
            hist.append({"op": op, "exc": exc, "post": proj(x), "renders": renders, "isTagList": type(x) is H.TagList})
        fh.write(json.dumps({"hist": hist}) + "\n")
print(json.dumps({"histories": n}))
