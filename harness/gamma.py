"""gamma: concretisation of abstract inputs; shared pools and helper classes.

Nothing here decides anything about a property; it only builds inputs.
"""
from __future__ import annotations

import ast
import random
from pathlib import Path

from .core import REPO

# strings built to hurt: markup metacharacters, pseudo references, CR/LF,
# astral and combining characters, leading/trailing whitespace
HOSTILE = [
    "<a&b>", "&amp;", "&#60;", "&lt", "&;", "&#x3C;", "a\"b", "it's", "x\r\ny", "\n", " lead", "trail ",
    "</div>", "<!--", "-->", "<![CDATA[", "]]>", "<script>alert(1)</script>", "</script>", "&&&&", "<<>>",
    "é́", "\U0001F600", "‮", "a\u0000b", " ", "'\"><", "=\"x\"", " a=\"b", "&#38;#38;",
    "&amp;amp;", "x" * 45 + "<" + "y" * 60, "&" * 41, "tab\there", "﻿", "퟿",
]
HOSTILE += [
    'data:image/png;base64,AAAA" onerror="alert(1)', "javascript:alert('1')", 'http://a/?x=1&y="2"<', "mailto:a@b?subject=<x>&body=\r\n",
    "#frag\"><script>", "//cdn/x.js'\n",
]
# C1 controls (a numeric reference to one of these does NOT decode to the same character) and neighbours
HOSTILE += ["caf\u00e9 \u0085 next", "\u0080\u009f<", "\u0091q\u0092 & \u00a0"]
LONG_HOSTILE = ["<p class=\"c\">Tom & 'Jerry'</p>\n" * 12, "x" * 199 + "<&>\"'", ("ab&cd<ef>" * 40)]
META = "&<>\"'\r\n;#/= \t!-"


def rand_text(rnd: random.Random, maxlen: int = 40) -> str:
    n = rnd.randint(0, maxlen)
    out = []
    while len(out) < n:
        r = rnd.random()
        if r < 0.35:
            out.append(rnd.choice(META))
        elif r < 0.5:
            out.append(rnd.choice(HOSTILE))
        elif r < 0.8:
            out.append(chr(rnd.randint(0x20, 0x7E)))
        elif r < 0.9:
            out.append(chr(rnd.randint(0xA0, 0xFFFF)) if True else "")
        else:
            out.append(chr(rnd.randint(0x10000, 0x10FFFF)))
    s = "".join(out)
    # lone surrogates are not Unicode scalar values: outside every statement
    return "".join(c for c in s if not 0xD800 <= ord(c) <= 0xDFFF)[: maxlen * 3]


class Tfy:
    """A tagifiable object whose expansion is fixed at construction."""

    def __init__(self, expansion_factory):
        self._f = expansion_factory

    def tagify(self):
        return self._f()


class ReprObj:
    """An object that renders itself through _repr_html_."""

    def __init__(self, html: str):
        self._h = html

    def _repr_html_(self) -> str:
        return self._h


class Bad:
    """Not a valid child / attribute value."""

    def __repr__(self):
        return "<Bad>"


def catalogue():
    """name -> (module, default add_ws) read from the working tree by import."""
    from .core import use_repo

    use_repo()
    import htmltools
    from htmltools import svg, tags

    out = {"tags": {}, "svg": {}, "top": {}}
    for modname, mod in (("tags", tags), ("svg", svg)):
        for n, f in vars(mod).items():
            if callable(f) and getattr(f, "__module__", None) == mod.__name__ and not n.startswith("_"):
                out[modname][n] = f
    for n in htmltools.__all__:
        f = getattr(htmltools, n)
        if callable(f) and n in out["tags"] and n not in ("tags", "svg"):
            out["top"][n] = f
    return out


def inline_names() -> list[str]:
    """The project's inline classification, read (not run) from scripts/generate_tags.py."""
    src = (REPO / "scripts" / "generate_tags.py").read_text()
    tree = ast.parse(src)
    for node in ast.walk(tree):
        if isinstance(node, ast.Assign):
            for t in node.targets:
                if isinstance(t, ast.Name) and t.id == "_INLINE_TAG_NAMES":
                    return sorted(ast.literal_eval(node.value))
    raise RuntimeError("_INLINE_TAG_NAMES not found")


VOID_NAMES = ["area", "base", "br", "col", "command", "embed", "hr", "img", "input", "keygen", "link",
              "meta", "param", "source", "track", "wbr"]
