"""Fresh-interpreter worker of C18's history check: executes constructions borrowed from the other drivers in one
order and prints one digest per construction."""
import json
import sys
from pathlib import Path

sys.path.insert(0, str(Path(__file__).resolve().parent.parent))
sys.dont_write_bytecode = True
from harness import core  # noqa: E402

core.use_repo()
from harness.props.determinism import C18  # noqa: E402

g = json.loads(sys.argv[1])
order, obs = C18().history_run(g, sys.argv[2])
print(json.dumps({"order": order, "obs": obs}))
