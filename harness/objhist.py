"""The object-history machine (spec/ObjOps.tla): random sequences of public operations on live tags, child lists and
attribute maps - append / insert / share / pop / clear / rename / toggle add_ws / set and delete attributes / assign a new
child list / copy / deepcopy / tagify / read-only operations - with the whole object graph projected after every step.
spec/trace/ObjTrace.tla predicts the graph after each step from the logged graph before it, and the harness adds one
observation per step: every live root renders like a tree built afresh from its projection."""
from __future__ import annotations

import copy
import random

from . import gamma
from .props import purity

NAMES = ["div", "span", "section", "pre", "p", "script", "b", "ul", "br", "textarea"]
KEYS = ["id", "class", "data-k", "title", "lang"]
VALS = ["v1", "x y", "", "v2"]


def gens(rnd: random.Random, n: int, salt: int):
    out = []
    for j in range(n):
        t = purity.rand_tree(rnd, rnd.choice([4, 8, 14]), with_tfy=False)
        steps = []
        for _ in range(rnd.randint(2, 9)):
            steps.append({"op": rnd.choice(["append", "append", "insert0", "insert", "setitem", "extend2", "share", "pop", "clear", "rename",
                                            "toggle", "setattr", "setattr", "update", "update", "delattr", "relist", "copy", "deepcopy",
                                            "tagify", "ro", "ro"]),
                          "pick": rnd.randrange(1000), "pick2": rnd.randrange(1000), "val": rnd.randrange(1000)})
        out.append({"kind": "objhist", "tree": t, "steps": steps, "seed": salt * 100003 + j})
    return out


def _reach(heap, start):
    seen, todo = set(), [start]
    while todo:
        n = todo.pop()
        if n in seen or n == 0:
            continue
        seen.add(n)
        o = heap[n - 1]
        if o is None:
            continue
        todo += [o["a"], o["k"]] + [it["n"] for it in o["items"] if it["r"] == "id"]
    return seen


def rebuild(heap, n, keep, H):
    """A fresh object graph with the structure the projection shows under object n (shared objects become separate)."""
    o = heap[n - 1]
    t = o["t"]

    def ref(r):
        if r["r"] == "str":
            return r["v"]
        if r["r"] == "html":
            return H.HTML(r["v"])
        return rebuild(heap, r["n"], keep, H)
    if t == "tag":
        attrs = {}
        for it in heap[o["a"] - 1]["items"]:
            k, v = it["v"].split("=", 1)
            attrs[k] = H.HTML(v) if it["n"] else v
        return H.Tag(o["name"], attrs, *[ref(r) for r in heap[o["k"] - 1]["items"]], _add_ws=o["ws"])
    if t == "list":
        return H.TagList(*[ref(r) for r in o["items"]])
    if t == "meta":
        return H.MetadataNode()
    if t == "dep":
        d = keep[n - 1]
        return H.HTMLDependency(d.name, str(d.version), source=copy.deepcopy(d.source), script=copy.deepcopy(d.script),
                                stylesheet=copy.deepcopy(d.stylesheet), meta=copy.deepcopy(d.meta), all_files=d.all_files,
                                head=rebuild(heap, o["k"], keep, H) if o["k"] else None)
    if t == "repr":
        return gamma.ReprObj(keep[n - 1]._h)
    raise ValueError(t)


def _views(x):
    try:
        r = x.render()
        return (x.get_html_string(), x.get_html_string(2, "\r\n"), str(x), r["html"], [(d.name, str(d.version)) for d in r["dependencies"]])
    except Exception as ex:  # noqa
        return ("raised", type(ex).__name__)


def execute(g, H):
    rnd = random.Random(g["seed"])
    root = purity.build(purity.norm_tree(g["tree"]), H)[0]
    roots = [root]
    p = purity.Proj(H)
    heap0, roots0 = p.snapshot(roots)
    heap, rs = heap0, roots0
    steps = []
    for st in g["steps"]:
        live = set()
        for r in rs:
            live |= _reach(heap, r)
        lists = sorted(n for n in live if heap[n - 1]["t"] == "list" and any(heap[m - 1]["t"] == "tag" and heap[m - 1]["k"] == n for m in live))
        tags = sorted(n for n in live if heap[n - 1]["t"] == "tag")
        amaps = sorted(heap[n - 1]["a"] for n in tags)
        op = st["op"]
        a = {"act": "ro", "obj": 0, "i": 0, "s": "", "ref": {"r": "str", "v": "", "n": 0}}
        exc = "none"
        try:
            if op in ("append", "insert0", "insert", "setitem", "extend2") and lists:
                L = lists[st["pick"] % len(lists)]
                # the operation is called on the list itself or on a tag that owns it (Tag.append / extend / insert delegate)
                owners = [t for t in tags if heap[t - 1]["k"] == L]
                via_tag = bool(owners) and st["pick2"] % 2 == 1 and op != "setitem"
                target = owners[0] if via_tag else L
                recv = p.keep[target - 1]
                kind = st["val"] % 3
                if kind == 0:
                    val, ref = "t%d <&>" % st["val"], {"r": "str", "v": "t%d <&>" % st["val"], "n": 0}
                elif kind == 1:
                    val, ref = H.HTML("<i>h%d</i>" % st["val"]), {"r": "html", "v": "<i>h%d</i>" % st["val"], "n": 0}
                else:
                    nm = NAMES[st["val"] % len(NAMES)]
                    val, ref = H.Tag(nm), {"r": "newtag", "v": nm, "n": 0}
                n_ = len(heap[L - 1]["items"])
                if op == "setitem" and n_ == 0:
                    op = "append"
                a.update(act=op, obj=target, ref=ref)
                if op == "append":
                    recv.append(val)
                elif op == "insert0":
                    recv.insert(0, val)
                elif op == "insert":
                    i = (st["pick2"] // 2) % (n_ + 1)
                    a.update(i=i + 1)
                    recv.insert(i, val)
                elif op == "setitem":
                    i = (st["pick2"] // 2) % n_
                    a.update(i=i + 1)
                    recv[i] = val
                else:
                    s2 = "e%d" % st["pick2"]
                    a.update(s=s2)
                    recv.extend([val, [None, s2]])
            elif op == "share" and lists and tags:
                L = lists[st["pick"] % len(lists)]
                cands = [t for t in tags if L not in _reach(heap, t)]
                if cands:
                    T = cands[st["pick2"] % len(cands)]
                    a.update(act="share", obj=L, ref={"r": "id", "v": "", "n": T})
                    p.keep[L - 1].append(p.keep[T - 1])
            elif op == "pop" and lists:
                L = lists[st["pick"] % len(lists)]
                n_ = len(heap[L - 1]["items"])
                if n_:
                    i = st["pick2"] % n_
                    a.update(act="pop", obj=L, i=i + 1)
                    p.keep[L - 1].pop(i)
            elif op == "clear" and lists:
                L = lists[st["pick"] % len(lists)]
                a.update(act="clear", obj=L)
                p.keep[L - 1].clear()
            elif op == "rename" and tags:
                T = tags[st["pick"] % len(tags)]
                nm = NAMES[st["val"] % len(NAMES)]
                a.update(act="rename", obj=T, s=nm)
                p.keep[T - 1].name = nm
            elif op == "toggle" and tags:
                T = tags[st["pick"] % len(tags)]
                a.update(act="toggle", obj=T)
                p.keep[T - 1].add_ws = not p.keep[T - 1].add_ws
            elif op == "setattr" and amaps:
                A = amaps[st["pick"] % len(amaps)]
                k, v = KEYS[st["val"] % len(KEYS)], VALS[st["pick2"] % len(VALS)]
                ks = [it["v"].split("=", 1)[0] for it in heap[A - 1]["items"]]
                a.update(act="setattr", obj=A, s=f"{k}={v}", i=(ks.index(k) + 1 if k in ks else 0))
                p.keep[A - 1][k] = v
            elif op == "update" and amaps:
                A = amaps[st["pick"] % len(amaps)]
                raw = ["data_k", "class_", "title", "aria_label_", "lang"][st["val"] % 5]
                pool = ["u1", True, 7, None, False, "", 2.5, "x y"]
                v1, v2 = pool[st["pick2"] % len(pool)], pool[(st["pick2"] // 8) % len(pool)]
                two = (st["val"] // 5) % 2 == 1
                # the rule of C15, from the arguments alone: one trailing underscore removed, the others hyphens; None / False
                # dropped, True as "", numbers as text; the values for one name in one call joined by single spaces
                name = (raw[:-1] if raw.endswith("_") else raw).replace("_", "-")
                texts = ["" if v is True else str(v) for v in ([v1, v2] if two else [v1]) if v is not None and v is not False]
                ks = [it["v"].split("=", 1)[0] for it in heap[A - 1]["items"]]
                a.update(act="update", obj=A, s=(f"{name}={' '.join(texts)}" if texts else ""), i=(ks.index(name) + 1 if name in ks else 0))
                if two:
                    p.keep[A - 1].update({raw: v1}, **{raw: v2})
                elif st["val"] % 2:
                    p.keep[A - 1].update(**{raw: v1})
                else:
                    p.keep[A - 1].update({raw: v1})
            elif op == "delattr" and amaps:
                A = amaps[st["pick"] % len(amaps)]
                ks = [it["v"].split("=", 1)[0] for it in heap[A - 1]["items"] if it["r"] == "kv"]
                if ks:
                    k = ks[st["pick2"] % len(ks)]
                    a.update(act="delattr", obj=A, s=k, i=[it["v"].split("=", 1)[0] for it in heap[A - 1]["items"]].index(k) + 1)
                    del p.keep[A - 1][k]
            elif op == "relist" and tags:
                T = tags[st["pick"] % len(tags)]
                a.update(act="relist", obj=T)
                p.keep[T - 1].children = H.TagList(*p.keep[T - 1].children)
            elif op in ("copy", "deepcopy", "tagify") and len(roots) < 4:
                R = rs[st["pick"] % len(rs)]
                a.update(act=op, obj=R)
                src = p.keep[R - 1]
                roots.append(copy.copy(src) if op == "copy" else copy.deepcopy(src) if op == "deepcopy" else src.tagify())
            else:
                R = roots[st["pick"] % len(roots)]
                which = st["val"] % 5
                if which == 0:
                    R.render()
                elif which == 1:
                    str(R); repr(R)
                elif which == 2:
                    R.get_html_string(1, "\n")
                elif which == 3:
                    R == roots[st["pick2"] % len(roots)]
                else:
                    R.get_dependencies(); R._repr_html_()
        except Exception as ex:  # noqa
            exc = type(ex).__name__
        heap, rs = p.snapshot(roots)
        twin = True
        for r_obj, r_id in zip(roots, rs):
            try:
                fresh = rebuild(heap, r_id, p.keep, H)
            except Exception:  # noqa
                continue
            if _views(r_obj) != _views(fresh):
                twin = False
        steps.append({"a": a, "heap": heap, "roots": rs, "twin": twin, "exc": exc})
    return {"heap0": heap0, "roots0": roots0, "steps": steps, "gen": g, "_module": "ObjTrace"}
