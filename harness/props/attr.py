"""C03 (attribute values are inert) and C15 (attribute names/values are
normalised and merged in argument order).  Verdicts: spec/trace/AttrTrace.tla
(histories) and spec/trace/EscapeTrace.tla (per-code-point attribute ranges)."""
from __future__ import annotations

import re

from ..core import Prop, cps, uncps
from .. import gamma
from .escape import cp_ranges, seg_rec, seg_or_flag, flag, segment, MARK

CLASS = cps("class")
STYLE = cps("style")


def _lib():
    import htmltools
    return htmltools


class EnumLikeInt(int):
    __str__ = int.__repr__
    __repr__ = lambda self: "<Prio.LEVEL: %d>" % int(self)


class EnumLikeFloat(float):
    __str__ = float.__repr__
    __repr__ = lambda self: "<Ratio.R: %s>" % float.__repr__(self)


def conc_val(v, H):
    k = v["k"]
    if k == "str":
        return uncps(v["t"])
    if k == "html":
        return H.HTML(uncps(v["t"]))
    if k == "num":
        t = uncps(v["t"])
        try:
            n = int(t)
        except ValueError:
            n = float(t)
        if v.get("sub"):
            # a number whose repr() is not its str() text (enum.IntEnum / IntFlag members on current Pythons)
            return (EnumLikeInt if isinstance(n, int) else EnumLikeFloat)(n)
        return n
    if k == "true":
        return True
    if k == "false":
        return False
    if k == "none":
        return None
    if k == "bad":
        return gamma.Bad()
    raise ValueError(k)


def split_dicts(items, H, choice: int):
    """gamma: distribute the flattened (name, value) items of one call over
    positional dicts and keywords.  A Python dict cannot repeat a key, so a
    repeated raw name opens a new dict; `choice` varies the rest."""
    groups = [[]]
    for n, v in items:
        name = uncps(n)
        if any(name == a for a, _ in groups[-1]) or (choice & 1 and groups[-1]):
            groups.append([])
        groups[-1].append((name, conc_val(v, H)))
        choice >>= 1
    dicts = [dict(g) for g in groups if g]
    kw = {}
    if dicts and (choice & 1) and all(isinstance(k, str) and k not in ("_add_ws", "_name") for k in dicts[-1]):
        kw = dicts.pop()
    return dicts, kw


def proj_attrs(tag, H):
    return [{"n": cps(k), "html": isinstance(v, H.HTML), "t": cps(str(v))} for k, v in tag.attrs.items()]


_ATTR = re.compile(r' ([^\s"=<>/]+)="([^"]*)"')


def tokenise_open_tag(out: str, name: str):
    """alpha: split '<name a="..." b="...">' into (attribute name, text between the quotes)."""
    assert out.startswith("<" + name)
    i = len(name) + 1
    toks = []
    while True:
        m = _ATTR.match(out, i)
        if not m:
            break
        toks.append({"n": cps(m.group(1)), "seg": cps(m.group(2))})
        i = m.end()
    rest = out[i:]
    closed = rest.startswith(">") or rest.startswith("/>")
    return toks, closed


def run_hist(hist, H, choice):
    t = H.Tag("div")
    obs = []
    left = []          # tags that were left behind by a "clone" step, with their attributes at that time
    for step, o in enumerate(hist):
        exc = "none"
        try:
            if o["op"] == "clone":
                # a new tag built from the attribute map of the old one (the way wrappers forward `tag.attrs`)
                left.append((t, proj_attrs(t, H)))
                way = (choice >> step) % 4
                if way == 0:
                    t = H.Tag(t.name, t.attrs)
                elif way == 1:
                    t = H.Tag(t.name, t.attrs, "child")
                elif way == 2:
                    import copy as _copy
                    t = _copy.copy(t)           # (also when the tag has no attributes at all)
                else:
                    t = t.tagify()
            elif o["op"] == "new":
                dicts, kw = split_dicts(o["items"], H, choice >> step)
                try:
                    if (choice >> (step + 7)) & 1:
                        # the way wrappers forward their arguments: consolidate first, then hand the result to a tag
                        attrs, _ = H.consolidate_attrs(*dicts, **kw)
                        t = H.Tag("div", attrs)
                    else:
                        t = H.Tag("div", *dicts, **kw)
                except TypeError:
                    t = H.Tag("div")
                    raise
            elif o["op"] == "update":
                dicts, kw = split_dicts(o["items"], H, choice >> step)
                t.attrs.update(*dicts, **kw)
            elif o["op"] == "setitem":
                n, v = o["items"][0]
                t.attrs[uncps(n)] = conc_val(v, H)
            elif o["op"] in ("add", "addpre"):
                n, v = o["items"][0]
                f = t.add_class if n == CLASS else t.add_style
                r = f(conc_val(v, H), prepend=(o["op"] == "addpre"))
                if r is not t:
                    exc = "not-self"
        except TypeError:
            exc = "TypeError"
        except Exception as ex:  # noqa
            exc = type(ex).__name__
        if (choice >> (step + 5)) & 1 and len(t.attrs):
            # another tag built from THESE value objects plus one more value for the first name (merged there): this tag and
            # the objects it holds are not touched by that
            k0 = next(iter(t.attrs))
            before_ = proj_attrs(t, H)
            side = H.Tag("i", {k_: v_ for k_, v_ in t.attrs.items()}, {k0: "side"})
            side.add_class("more")
            side.attrs.update({k0: H.HTML("x")}, {k0: "y"})
            if proj_attrs(t, H) != before_:
                left.append((t, before_))
        if (choice >> (step + 3)) & 1:
            t.get_html_string()        # rendered in between (whatever a rendering remembers must not outlive a change)
        obs.append({"attrs": proj_attrs(t, H), "exc": exc,
                    "othersSame": all(proj_attrs(o_, H) == p0 for o_, p0 in left)})
    out = t.get_html_string()
    toks, closed = tokenise_open_tag(out, t.name)
    return obs, toks, closed, t


class _AttrBase(Prop):
    trace_module = "AttrTrace"

    def model_runs(self, tier):
        runs = [{"module": "MC_Attr", "cfg": f"Attr_{tier}.cfg"}]
        if tier == "thorough":
            runs.append({"module": "MC_Attr", "cfg": "Attr_sim.cfg", "simulate": "num=60", "depth": 10, "export": False, "timeout": 900})
        return runs

    def gens_from_export(self, lines, tier, rnd):
        return [{"kind": "hist", "hist": ln["hist"], "choice": rnd.getrandbits(12),
                 "model_attrs": ln["attrs"], "model_out": ln["out"]} for ln in lines]

    NAMES = ["x", "x_", "x__", "a_b", "a-b", "a_b_", "x-", "x_-", "class", "class_", "style", "data_x", "__",
             "aria_label", "for_", "X", "x:y", "é"]

    def rand_val(self, rnd, plainish=False):
        r = rnd.random()
        if r < 0.35:
            return {"k": "str", "t": cps(rnd.choice(gamma.HOSTILE) if rnd.random() < 0.6 else gamma.rand_text(rnd, 20))}
        if r < 0.55:
            t = rnd.choice(gamma.HOSTILE) if rnd.random() < 0.6 else gamma.rand_text(rnd, 20)
            return {"k": "html", "t": cps(t.replace('"', "q"))}
        if r < 0.65:
            n = rnd.choice([0, 1, -3, 2.5, 1e21, 10 ** 12, -0.0])
            return {"k": "num", "t": cps(str(n)), "sub": rnd.random() < 0.4}
        if plainish:
            return {"k": "str", "t": cps("p;")}
        return {"k": rnd.choice(["true", "false", "none", "none", "true", "bad"]), "t": []}

    def gens_random(self, tier, rnd):
        gens = []
        n = 600 if tier == "quick" else 12000
        for _ in range(n):
            hist = []
            for step in range(rnd.randint(1, 15 if tier == "thorough" else 8)):
                if step == 0:
                    op = "new"
                else:
                    op = rnd.choice(["update", "update", "setitem", "add", "addpre"])
                if op in ("new", "update"):
                    items = [[cps(rnd.choice(self.NAMES)), self.rand_val(rnd)] for _ in range(rnd.randint(0, 5))]
                elif op == "setitem":
                    items = [[cps(rnd.choice(self.NAMES)), self.rand_val(rnd)]]
                else:
                    nm = rnd.choice([CLASS, STYLE])
                    v = self.rand_val(rnd, plainish=True)
                    while v["k"] not in ("str", "html"):
                        v = self.rand_val(rnd, plainish=True)
                    if nm == STYLE and (not v["t"] or v["t"][-1] != 59):
                        v = {"k": v["k"], "t": v["t"] + [59]}
                    items = [[nm, v]]
                hist.append({"op": op, "items": items})
                if rnd.random() < 0.12:
                    hist.append({"op": "clone", "items": []})
                if op in ("new", "update", "setitem") and items and rnd.random() < 0.2:
                    # the same characters for the same name again, with the other trust marking (a later update or
                    # item assignment replaces, also when old and new value compare equal as strings)
                    nm_, v_ = rnd.choice(items)
                    # (an HTML() value that holds a double quote ends the attribute by itself: outside the statement)
                    if v_["k"] == "html" or (v_["k"] == "str" and 34 not in v_["t"]):
                        flipped = {"k": "html" if v_["k"] == "str" else "str", "t": v_["t"]}
                        hist.append({"op": rnd.choice(["update", "setitem"]), "items": [[nm_, flipped]]})
            gens.append({"kind": "hist", "hist": hist, "choice": rnd.getrandbits(24)})
        for _ in range(200 if tier == "quick" else 4000):
            items = [[cps(rnd.choice(self.NAMES)), self.rand_val(rnd)] for _ in range(rnd.randint(0, 6))]
            items = [it for it in items if it[1]["k"] != "bad"]
            gens.append({"kind": "cons", "items": items, "choice": rnd.getrandbits(16),
                         "kids": rnd.randint(0, 4)})
        # the object-history machine (spec/ObjOps.tla): attributes change only through their own tag
        from .. import objhist
        gens += objhist.gens(rnd, 150 if tier == "quick" else 3000, 15)
        return gens

    def execute(self, g):
        H = _lib()
        if g["kind"] == "objhist":
            from .. import objhist
            return objhist.execute(g, H)
        if g["kind"] == "hist":
            obs, toks, closed, _ = run_hist(g["hist"], H, g.get("choice", 0))
            rec = {"k": "hist", "hist": g["hist"], "obs": obs, "tok": toks, "gen": g}
            recs = [rec]
            if not closed:
                recs.append(flag("C03", "OpeningTagWellFormed", True, False, g) | {"_module": "EscapeTrace"})
            return recs
        if g["kind"] == "cons":
            dicts, kw = split_dicts(g["items"], H, g["choice"])
            kid_pool = ["a", None, 5, ["n", ("m",)], H.tags.span("s"), H.HTML("<i>"), H.TagList("u"), 2.5]
            kids = [kid_pool[(g["choice"] + 3 * i) % len(kid_pool)] for i in range(g["kids"])]
            # interleave dicts and children
            args = []
            di, ki = list(dicts), list(kids)
            c = g["choice"]
            while di or ki:
                if di and (not ki or c & 1):
                    args.append(di.pop(0))
                else:
                    args.append(ki.pop(0))
                c >>= 1
            direct = H.Tag("div", *args, **kw)
            # (an earlier, unrelated call whose result the caller then changed - the usual `attrs["class"] = ...` pattern)
            early_attrs, _ = H.consolidate_attrs(*[a_ for a_ in args if not isinstance(a_, dict)])
            early_attrs["class"] = "added-by-the-caller"
            early_attrs.update({"data-z": "1"})
            attrs, children = H.consolidate_attrs(*args, **kw)
            nondict = [a for a in args if not isinstance(a, dict)]
            same = len(children) == len(nondict) and all(a is b for a, b in zip(children, nondict))
            rebuilt = H.Tag("div", attrs, *children)
            tmp = H.Tag("div", attrs)
            return {"k": "cons", "items": g["items"], "direct": proj_attrs(direct, H), "cons": proj_attrs(tmp, H)
                    if False else [{"n": cps(k), "html": isinstance(v, H.HTML), "t": cps(str(v))} for k, v in attrs.items()],
                    "kidsSame": bool(same), "rebuiltEqual": bool(rebuilt == direct and list(rebuilt.attrs) == list(direct.attrs)),
                    "gen": g}
        if g["kind"] == "cprange":
            if g["path"] == "fn":
                fn = lambda ch: H.html_escape(ch, attr=True)
            else:
                Tag = H.Tag
                fn = lambda ch: Tag("i", a=ch).get_html_string()[6:-6]
            recs = cp_ranges("C03", "attr", fn, g["lo"], g["hi"], g)
            for r in recs:
                r["_module"] = "EscapeTrace"
            return recs
        if g["kind"] == "attr_seg":
            s = uncps(g["s"])
            way = g["way"]
            if g.get("prime"):
                # the same text is first escaped for the TEXT context in this process
                H.html_escape(s)
                H.tags.div(H.tags.h1(s), s).get_html_string()

            def r(x):
                if way == "kw":
                    t = H.tags.div(a=x)
                elif way == "dict":
                    t = H.tags.div({"a": x}, "child")
                elif way == "setitem":
                    t = H.tags.div()
                    t.attrs["a"] = x
                elif way == "update":
                    t = H.tags.div(a="old")
                    t.attrs.update({"a": x})
                elif way == "void":
                    t = H.tags.img(b="1", a=x)
                elif way == "class_then_remove_other":
                    # remove_class rewrites the class value from its tokens: the token that stays is still plain text
                    t = H.tags.div(class_=x + " zap")
                    t.remove_class("zap")
                elif way == "class_then_remove_absent":
                    t = H.tags.div(class_=x)
                    t.remove_class("not-there")
                elif way == "class_merge_html_then_remove":
                    t = H.tags.div(class_=x)
                    t.add_class(H.HTML("zz"))
                    t.remove_class("zz")
                elif way == "class_merge_html_then_has":
                    # a question asked in between changes nothing
                    t = H.tags.div(class_=x)
                    t.add_class(H.HTML("zz"))
                    t.has_class("zz"); t.has_class(x); t.has_class("nope")
                    return t.get_html_string().replace(' zz"', '"', 1)
                elif way == "class_padded_merge_html_then_has":
                    # (a value with irregular white space stays exactly as it is when it is only LOOKED at)
                    t = H.tags.div(class_="lead\t " + x + "  pad")
                    t.add_class(H.HTML("zz"))
                    t.has_class("zz"); t.has_class("pad"); t.has_class("nope")
                    return t.get_html_string()
                elif way == "from_attrs_plus_kw":
                    # a new tag from another tag's attribute map plus a keyword for the same name
                    a_ = H.tags.div(class_=H.HTML("btn"))
                    return H.tags.span(a_.attrs, class_=x).get_html_string()
                elif way == "from_attrs_dict_plus_kw":
                    a_ = H.tags.div(class_=H.HTML("btn"))
                    return H.tags.span(dict(a_.attrs), {"class": x}).get_html_string()
                elif way in ("doc_html_class", "doc_html_style"):
                    # attribute arguments of a document whose sole content is the caller's own <html> element
                    nm = "class" if way == "doc_html_class" else "style"
                    root = H.tags.html(H.tags.body("b"), {nm: H.HTML("dark")})
                    out = H.HTMLDocument(root, **{nm: x}).render()["html"]
                    return out[out.index("<html"): out.index(">", out.index("<html")) + 1]
                elif way == "doc_kw":
                    out = H.HTMLDocument(H.tags.div("c"), lang="en", **{"data-k": x}).render()["html"]
                    return out[out.index("<html"): out.index(">", out.index("<html")) + 1]
                else:
                    t = H.tags.div(b="1", a=x, c="2")
                return t.get_html_string()
            if way.startswith("class_") and s.split() != [s]:
                return None          # the class helpers work on whitespace-separated tokens (C16)
            seg = segment(r, MARK, s)
            return seg_or_flag("C03", "attr", [("esc", s)], seg, g) | {"_module": "EscapeTrace"}
        if g["kind"] == "fn":
            s = uncps(g["s"])
            out = H.html_escape(s, attr=True)
            recs = [seg_rec("C03", "attr", [("esc", s)], out, g) | {"_module": "EscapeTrace"}]
            if "model" in g:
                recs.append({"k": "model", "ctx": "attr", "s": g["s"], "out": cps(out), "gen": g, "_module": "EscapeTrace"})
            return recs
        raise ValueError(g["kind"])


class C03(_AttrBase):
    observed_from_suite = ["EscapeTrace"]
    id = "C03"
    design_ref = "DESIGN.md section 3, C03"
    rule = ("attribute histories (construction, update, item assignment, add_class/add_style, several values for one "
            "name mixing plain and HTML()) enumerated by TLC up to the bound and drawn at random; every string over "
            "the metacharacter alphabet through html_escape(attr=True); every code point as an attribute value.  "
            "Non-trivial: some value of plain origin contains one of the seven characters that must be escaped.")
    assumptions = [
        "the opening tag is split into (name, text between the double quotes) by a scanner that knows nothing of escaping",
        "HTML() values used in histories contain no double quote (trusted markup may legitimately break the tokenisation)",
        "numbers are defined by their str() text",
    ]

    def model_runs(self, tier):
        return super().model_runs(tier) + [
            {"module": "Escape", "cfg": f"Escape_{tier}.cfg", "export": False},
            {"module": "Escape", "cfg": f"Escape_{tier}_gen.cfg"}]

    def nontrivial(self, rec):
        sp = (38, 60, 62, 34, 39, 10, 13)
        if rec.get("k") == "hist":
            return any(c in sp for o in rec["hist"] for it in o["items"] if it[1]["k"] in ("str", "num") for c in it[1]["t"])
        if rec.get("k") == "seg":
            return any(c in sp for p in rec["pieces"] for c in p["t"])
        return rec.get("k") == "range"

    def gens_from_export(self, lines, tier, rnd):
        gens = []
        for ln in lines:
            if "hist" in ln:
                gens.append({"kind": "hist", "hist": ln["hist"], "choice": rnd.getrandbits(12)})
            elif ln.get("attr"):
                gens.append({"kind": "fn", "s": ln["s"], "model": ln["out"]})
                if len(ln["s"]) <= 3:
                    gens.append({"kind": "attr_seg", "s": ln["s"],
                                 "way": ["kw", "dict", "setitem", "update", "void", "mid"][len(gens) % 6]})
        return gens

    def gens_random(self, tier, rnd):
        gens = super().gens_random(tier, rnd)
        gens = [g for g in gens if g["kind"] == "hist"]
        step = 0x1000
        for lo in range(0, 0x110000, step):
            gens.append({"kind": "cprange", "lo": lo, "hi": lo + step - 1, "path": "fn"})
        blocks = range(0x110) if tier == "thorough" else sorted({0, 1, 2, 0xD, 0xF, 0x10, 0x10F} | {rnd.randrange(0x110) for _ in range(6)})
        for b in blocks:
            gens.append({"kind": "cprange", "lo": b * step, "hi": b * step + step - 1, "path": "attr"})
        ways = ["kw", "dict", "setitem", "update", "void", "mid", "class_then_remove_other", "class_then_remove_absent",
                "class_merge_html_then_remove", "class_merge_html_then_has", "class_padded_merge_html_then_has", "from_attrs_plus_kw", "from_attrs_dict_plus_kw",
                "doc_html_class", "doc_html_style", "doc_kw"]
        tokens = ["a&b", 'x"y', "it's", "<b>", "p>q", "&amp;", "é&", 'a"b\'c<d>e&f']
        for s in gamma.HOSTILE + tokens:
            for way in ways:
                gens.append({"kind": "attr_seg", "s": cps(s), "way": way})
        # long values (an implementation may treat long strings differently from short ones)
        for s in gamma.LONG_HOSTILE + ["q" * 300 + '"' + "r" * 10, "'" * 256, "z" * 255 + "\r", ("ab\n" * 70), "k" * 1000 + "<\"&'>"]:
            for way in ("kw", "dict", "setitem", "update", "void", "mid", "doc_kw"):
                gens.append({"kind": "attr_seg", "s": cps(s), "way": way})
        for _ in range(500 if tier == "quick" else 10000):
            gens.append({"kind": "attr_seg", "s": cps(gamma.rand_text(rnd, rnd.choice([5, 30, 100, 400]))),
                         "way": rnd.choice(ways)})
        # history dependence: the same string rendered as text first, then as an attribute value
        for j, s in enumerate(gamma.HOSTILE + ["Tom & \"Jerry\"", "a<b 'c'", "x & y\nz"]):
            gens.append({"kind": "attr_seg", "s": cps("p" + str(j) + s), "way": ["kw", "dict", "void"][j % 3], "prime": True})
        for _ in range(200 if tier == "quick" else 4000):
            gens.append({"kind": "attr_seg", "s": cps(gamma.rand_text(rnd, rnd.choice([6, 20, 60]))),
                         "way": rnd.choice(["kw", "dict", "setitem", "update", "void", "mid"]), "prime": True})
        return gens


class C15(_AttrBase):
    id = "C15"
    design_ref = "DESIGN.md section 3, C15"
    rule = ("attribute histories over colliding raw names (x, x_, x__, a_b, a-b, ...) and all value kinds, enumerated "
            "by TLC up to the bound and drawn at random (up to 15 operations), plus consolidate_attrs vs direct "
            "construction.  Non-trivial: at least two items of one call normalise to the same name, or a later "
            "operation touches an existing name.")

    assumptions = [
        "a stored value marked HTML() that was merged from plain and HTML() parts is compared through the escape matcher "
        "(its plain parts are stored escaped)",
        "assigning None/False to an existing name is not constrained by the statement and only produces DRIFT records",
    ]

    def nontrivial(self, rec):
        if rec.get("k") == "hist":
            seen = set()
            for o in rec["hist"]:
                names = [uncps(it[0]).rstrip("_").replace("_", "-") if not uncps(it[0]).endswith("_")
                         else uncps(it[0])[:-1].replace("_", "-") for it in o["items"]]
                if len(set(names)) < len(names) or seen & set(names):
                    return True
                seen |= set(names)
            return False
        return True
