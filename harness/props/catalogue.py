"""C19: every tag function creates its own element with the documented default."""
from __future__ import annotations

from ..core import Prop
from .. import gamma

ADDWS = {"true": True, "false": False, "str": "yes", "int": 1, "none": None}


_SH = {}


def _SHARED_HTML(H):
    """one HTML() object handed to every call that uses it (a module-level constant in user code)"""
    if H not in _SH:
        _SH[H] = H.HTML("a b")
    return _SH[H]


class Maybe:
    pass


def _maybe(valid):
    o = Maybe()
    if valid:
        o._repr_html_ = lambda: "<u>m</u>"
    return o


ABS = {15: {"opacity": "1.0", "z": "0.0", "n": "1", "m": "0", "hidden": "", "w": "2.0", "k": "2"}}      # shape -> attrs exactly
BAD_SHAPES = {17}


def shape_args(i, H):
    """gamma: argument shapes (children, attribute dicts, keyword attributes)."""
    span, HTML = H.tags.span, H.HTML
    shapes = [
        ((), {}),
        (("t",), {}),
        (({"id": "a", "class_": "c1"}, "x", {"class": "c2"}), {"class_": "c3", "data_x": 1}),
        ((["a", [None, 2.5, ("b",)]], span("k", id="s"), HTML("<i>&</i>"), None), {"hidden": True, "title": None}),
        ((H.TagList("p", span()), 7), {"x__": "v", "for_": "f"}),
        ((H.HTMLDependency("d", "1.0"), {"style": "a:b;"}), {"style": HTML("c:d;")}),
        (({"a_b": False, "a-b": "z"}, True), {"aria_label": "<&>\"'"}),
        ((gamma.ReprObj("<u>r</u>"), gamma.Tfy(lambda: "e")), {"_": "u"} if False else {"lang": "en"}),
        # repeated equal children and attribute dicts: every occurrence is passed through
        (("x", "y", "x", span("k"), span("k"), {"class": "a"}, {"class": "a"}, H.HTMLDependency("d", "1.0"), H.HTMLDependency("d", "1.0")), {}),
        # block-level tags as children do not change the function's own whitespace default
        ((H.tags.p("para"), H.tags.div("d", H.tags.ul(H.tags.li("i")))), {"id": "w"}),
        # attribute values that mean something to browsers mean nothing to the tag functions
        (("x",), {"href": "u", "target": "_blank", "type": "module", "async_": True, "defer": True, "loading": "lazy", "role": "button"}),
        (({"target": "_blank", "rel": None, "type": "text/css", "method": "post"}, "y"), {"for_": "f", "http_equiv": "refresh", "charset": "x"}),
        # a lone, already normalised TagList as the only child argument; one HTML() object as the value of two attributes
        ((H.TagList("only", span("k")),), {}),
        ((_SHARED_HTML(H), {"class": _SHARED_HTML(H)}), {"class_": "more", "style": _SHARED_HTML(H)}),
        # equal numbers of different types (True / 1 / 1.0, False / 0 / 0.0) as attribute values
        (({"opacity": 1.0, "z": 0.0},), {"n": 1, "m": 0, "hidden": True, "off": False, "w": 2.0, "k": 2}),
        # a child that renders itself because THAT instance was given a _repr_html_ ...
        ((_maybe(True),), {}),
        # ... and another instance of the same class that was not: not a valid child (TypeError, like the Tag constructor)
        ((_maybe(False),), {}),
    ]
    return shapes[(i - 1) % len(shapes)]


class C19(Prop):
    id = "C19"
    trace_module = "CatTrace"
    design_ref = "DESIGN.md section 3, C19"
    rule = ("every function of the catalogue constants (113 HTML, 66 SVG, 17 top-level shortcuts) x 6 _add_ws arguments "
            "(default, True, False, a str, an int, None) x argument shapes, all enumerated by TLC and all called; plus any "
            "additional function found in the modules.  Non-trivial: every call (each checks a distinct function/argument "
            "combination).")
    assumptions = [
        "the inline classification is read (ast.literal_eval, not executed) from scripts/generate_tags.py of the working tree",
        "equality with the directly constructed Tag uses the library's own == plus name/add_ws/attribute-order comparison",
    ]

    def model_runs(self, tier):
        return [{"module": "Catalogue", "cfg": f"Catalogue_{tier}.cfg"}]

    def gens_from_export(self, lines, tier, rnd):
        return [{"kind": "call", "call": ln["call"]} for ln in lines]

    def gens_random(self, tier, rnd):
        # functions present in the modules but absent from the catalogue constants are held to the same rule
        cat = gamma.catalogue()
        import re
        from ..core import SPEC
        data = (SPEC / "CatalogueData.tla").read_text()
        known = set(re.findall(r'"([^"]+)"', data))
        gens = []
        for mod in ("tags", "svg"):
            for f in cat[mod]:
                if f not in known:
                    for aw in ("default", "true", "false", "str"):
                        gens.append({"kind": "call", "call": {"mod": mod, "f": f, "addws": aw, "shape": 2}})
        return gens

    def execute(self, g):
        import htmltools as H
        c = g["call"]
        modobj = {"tags": H.tags, "svg": H.svg, "top": H}[c["mod"]]
        f = getattr(modobj, c["f"], None)
        rec = {"call": c, "exists": callable(f), "exc": "none", "name": "", "ws": False, "eq": False, "same": True, "fresh": True, "gen": g}
        if not callable(f):
            return rec
        if c["mod"] == "top":
            rec["same"] = f is getattr(H.tags, c["f"], None)
        args, kw = shape_args(c["shape"], H)
        kw = dict(kw)
        if c["addws"] != "default":
            kw["_add_ws"] = ADDWS[c["addws"]]
        try:
            t = f(*args, **kw)
        except TypeError:
            rec["exc"] = "TypeError"
            return rec
        except Exception as ex:  # noqa
            rec["exc"] = type(ex).__name__
            return rec
        if c["shape"] in BAD_SHAPES:
            return rec          # accepted although it holds an invalid child: exc stays "none", the model expects TypeError
        if c["shape"] in ABS and dict(t.attrs) != ABS[c["shape"]]:
            rec["eq"] = False
            rec["name"] = t.name
            rec["ws"] = bool(t.add_ws)
            return rec
        # every call creates its own element: a second identical call gives a distinct object that does not see what
        # was done to the first one in between
        try:
            t.add_class("verif-mark")
            t.append("verif-child")
            args3, kw3 = shape_args(c["shape"], H)
            kw3 = dict(kw3)
            if c["addws"] != "default":
                kw3["_add_ws"] = ADDWS[c["addws"]]
            t2 = f(*args3, **kw3)
            rec["fresh"] = bool(t2 is not t and not t2.has_class("verif-mark") and "verif-child" not in list(t2.children))
            # ... and its own child list / attribute values: the caller's argument objects are as they were
            for a_ in args:
                if isinstance(a_, H.TagList):
                    rec["fresh"] = rec["fresh"] and "verif-child" not in list(a_) and t.children is not a_
            rec["fresh"] = rec["fresh"] and str(_SHARED_HTML(H)) == "a b"
            t.remove_class("verif-mark")
            t.children.pop()
        except Exception:  # noqa
            rec["fresh"] = False
        rec["name"] = t.name if isinstance(t, H.Tag) and type(t.name) is str else "?"
        rec["ws"] = bool(t.add_ws) if isinstance(getattr(t, "add_ws", None), bool) else False
        args2, kw2 = shape_args(c["shape"], H)
        kw2 = dict(kw2)
        direct = H.Tag(c["f"], *args, _add_ws=t.add_ws if isinstance(t.add_ws, bool) else True, **{k: v for k, v in kw.items() if k != "_add_ws"})
        rec["eq"] = bool(isinstance(t, H.Tag) and t == direct and list(t.attrs.items()) == list(direct.attrs.items())
                         and [type(x) for x in t.children] == [type(x) for x in direct.children]
                         and [type(v) for v in t.attrs.values()] == [type(v) for v in direct.attrs.values()]
                         and t.render()["html"] == direct.render()["html"])
        return rec
