"""C14: child lists hold only normalised nodes after any sequence of operations.
Histories come from TLC (spec/Normalize.tla) and from a seeded random driver;
spec/trace/ListTrace.tla judges every step."""
from __future__ import annotations

from ..core import Prop
from .. import gamma


class Labeled:
    pass


def _mk(H):
    class LRepr(gamma.ReprObj):
        def __init__(self, label):
            super().__init__(f"<r>{label}</r>")
            self.label = label

    class LTfy(gamma.Tfy):
        def __init__(self, label):
            super().__init__(lambda: H.tags.span(label))
            self.label = label
    class Maybe:
        """instances are valid children only if they were given a _repr_html_ of their own"""
    return LRepr, LTfy, Maybe


def num(v: str):
    if v == "True":
        return True
    if v == "False":
        return False
    try:
        return int(v)
    except ValueError:
        return float(v)


def conc(a, H, cls, salt=0, alias=None):
    k, v = a["k"], a["v"]
    if alias is not None and k in ("list", "tuple", "tl"):
        # gamma option: structurally equal containers of one operation are ONE object referenced several times
        import json as _json
        key = _json.dumps(a, sort_keys=True)
        if key in alias:
            return alias[key]
        kids = [conc(c, H, cls, salt + i + 1, alias) for i, c in enumerate(a["c"])]
        obj = kids if k == "list" else tuple(kids) if k == "tuple" else H.TagList(*kids)
        alias[key] = obj
        return obj
    if k == "str":
        return v
    if k == "num":
        return num(v)
    if k == "html":
        return H.HTML(v)
    if k == "tag":
        return H.tags.span(id=v)
    if k == "dep":
        return H.HTMLDependency(v, "1.0")
    if k == "repr":
        if salt % 3 == 1:
            # an object that renders itself because THAT instance has a _repr_html_ (validity is a fact about the
            # object, not about its class)
            o = cls[2]()
            o._repr_html_ = lambda v=v: f"<r>{v}</r>"
            o.label = v
            return o
        return cls[0](v)
    if k == "tfy":
        return cls[1](v)
    if k == "none":
        return None
    if k == "bad":
        return [gamma.Bad(), {"a": 1}, b"bytes", {1, 2}, object, cls[2]()][(salt + len(v)) % 6]
    kids = [conc(c, H, cls, salt + i + 1) for i, c in enumerate(a["c"])]
    if k == "list":
        return kids
    if k == "tuple":
        return tuple(kids)
    if k == "tl":
        return H.TagList(*kids)
    if k == "iter":
        return iter(kids)
    raise ValueError(k)


def proj(x, H, cls):
    out = []
    for e in list(x):
        if isinstance(e, H.HTML):
            out.append({"k": "html", "v": str(e)})
        elif isinstance(e, str):
            out.append({"k": "str", "v": e})
        elif isinstance(e, H.Tag):
            out.append({"k": "tag", "v": str(e.attrs.get("id"))})
        elif isinstance(e, H.HTMLDependency):
            out.append({"k": "dep", "v": e.name})
        elif isinstance(e, cls[0]) or (isinstance(e, cls[2]) and hasattr(e, "_repr_html_")):
            out.append({"k": "repr", "v": e.label})
        elif isinstance(e, cls[1]):
            out.append({"k": "tfy", "v": e.label})
        else:
            out.append({"k": "raw:" + type(e).__name__, "v": repr(e)[:40]})
    return out


def run_hist(hist, H, recvkind, salt):
    cls = _mk(H)
    holder = H.tags.div() if recvkind == "tag" else None
    x = holder.children if holder is not None else H.TagList()
    out = []
    lent = []        # TagLists that were handed in as arguments, with their projection at that time

    def taglists(a):
        if isinstance(a, H.TagList):
            yield a
        if isinstance(a, (list, tuple, H.TagList)):
            for e_ in a:
                yield from taglists(e_)
    for step, h in enumerate(hist):
        op = h["op"]
        act = op["act"]
        alias = {} if (salt + step) % 3 == 0 else None
        args = [conc(a, H, cls, salt + step, alias) for a in op["args"]]
        for a_ in args:
            for tl in taglists(a_):
                if len(lent) < 40 and not any(tl is o for o, _ in lent):
                    lent.append((tl, proj(tl, H, cls)))
        # is_tag_child on fresh copies of the arguments (iterators are one-shot)
        probe = [conc(a, H, cls, salt + step) for a in op["args"]]
        if act in ("Extend", "IAdd", "Add", "RAdd"):
            supplied = [probe[0]] if isinstance(probe[0], (str, H.HTML)) else list(probe[0])
        else:
            supplied = probe
        childok = all(H.is_tag_child(p) for p in supplied)
        if act in ("Repeat", "IMul") and len(x) * max(op["n"], 1) > 200:
            op = dict(op, n=1)
        if holder is None and (salt + step) % 5 == 0 and len(lent) < 40:
            # the list is replaced by its tagify() / copy() result and the history goes on with that one: the list that is
            # left behind keeps its own children
            lent.append((x, proj(x, H, cls)))
            x = x.tagify() if (salt + step) % 10 == 0 and all(not isinstance(e_, cls[1]) for e_ in x) else x.copy()
        old = x
        exc = "none"
        res_is_list = True
        try:
            if act == "New":
                x = H.TagList(*args)
                if holder is not None:
                    holder = H.Tag("div", *[conc(a, H, cls, salt + step) for a in op["args"]])
                    x = holder.children
            elif act == "Append":
                (holder if holder is not None else x).append(*args)
            elif act == "Extend":
                (holder if holder is not None else x).extend(args[0])
            elif act == "Insert":
                (holder if holder is not None else x).insert(op["i"], args[0])
            elif act == "IAdd":
                # += extends the list IN PLACE: done through a second name, the receiver itself must see it
                alias_ = x
                alias_ += args[0]
                if holder is not None:
                    x = holder.children
            elif act == "Add":
                r = x + args[0]
                res_is_list = type(r) is H.TagList
                x = r
            elif act == "RAdd":
                r = args[0] + x
                res_is_list = type(r) is H.TagList
                x = r
            elif act == "Slice":
                r = x[op["i"]:op["j"]:op["n"]]
                res_is_list = type(r) is H.TagList
                x = r
            elif act == "Repeat":
                r = x * op["n"]
                res_is_list = type(r) is H.TagList
                x = r
            elif act == "IMul":
                x *= op["n"]
            if act in ("Add", "RAdd", "Slice", "Repeat") and holder is not None:
                holder = H.tags.div()
                holder.children = x
        except TypeError:
            exc = "TypeError"
            x = old
        except Exception as ex:  # noqa
            exc = type(ex).__name__
            x = old
        post = proj(x, H, cls)
        out.append({"op": op, "exc": exc, "post": post, "recv": proj(old, H, cls),
                    "resIsList": bool(res_is_list and type(x) is H.TagList),
                    "nodeok": all(H.is_tag_node(e) for e in list(x)), "childok": bool(childok),
                    # a list that was only ever an argument has had no operation applied to it
                    "lentSame": all(proj(o, H, cls) == p0 for o, p0 in lent)})
    return out


class C14(Prop):
    id = "C14"
    trace_module = "ListTrace"
    design_ref = "DESIGN.md section 3, C14"
    rule = ("operation histories (construction, append, extend, insert, +, reflected +, +=, slicing, repetition; on a "
            "TagList and through a Tag) over an argument pool of nested lists/tuples/TagLists, None, numbers, strings, "
            "tags, HTML(), dependencies, self-rendering (by class or per instance) and tagifiable objects and unsupported objects "
            "at depth 0-3, containers possibly aliased, += through a second name, argument lists kept and re-inspected: "
            "every history up to the bound (TLC) and seeded random histories up to 30 operations with nesting to "
            "depth 6.  Non-trivial: some argument is a container or is dropped/converted/rejected.")
    assumptions = [
        "stored elements are identified by their text (str/HTML) or by a label carried by the object (tags: id attribute)",
        "unsupported objects are drawn from {plain object, dict, bytes, set, class}",
        "+, reflected + and += are given iterables of children (the API's declared argument type)",
    ]

    def model_runs(self, tier):
        if tier == "quick":
            return [{"module": "MC_Normalize", "cfg": "Normalize_quick.cfg"}]
        return [{"module": "MC_Normalize", "cfg": "Normalize_thorough.cfg", "export": False},
                {"module": "MC_Normalize", "cfg": "Normalize_thorough_gen.cfg"},
                {"module": "MC_Normalize", "cfg": "Normalize_sim.cfg", "simulate": "num=300", "depth": 9, "export": False, "timeout": 900}]

    def nontrivial(self, rec):
        def deep(a):
            return a["k"] in ("list", "tuple", "tl", "iter", "none", "num", "bad") or any(deep(c) for c in a["c"])
        return any(deep(a) for h in rec["hist"] for a in h["op"]["args"])

    def gens_from_export(self, lines, tier, rnd):
        return [{"kind": "hist", "hist": [{"op": h["op"]} for h in ln["hist"]], "recv": "tag" if i % 3 == 0 else "list",
                 "salt": i} for i, ln in enumerate(lines)]

    def rand_arg(self, rnd, depth, nobad=False):
        r = rnd.random()
        if depth > 0 and r < 0.35:
            k = rnd.choice(["list", "tuple", "tl", "list"])
            # a TagList cannot be built around an unsupported object: that would fail in gamma, not in the operation
            return {"k": k, "v": "", "c": [self.rand_arg(rnd, depth - 1, nobad or k == "tl") for _ in range(rnd.randint(0, 3))]}
        k = rnd.choice(["str", "str", "num", "num", "html", "tag", "dep", "repr", "tfy", "none", "none", "bad"])
        if k == "bad" and (nobad or rnd.random() < 0.6):
            k = "str"
        if k == "str":
            v = rnd.choice(["", "a", "bc", "<x>", " "])
        elif k == "num":
            v = rnd.choice(["0", "1", "-2", "2.5", "True", "False", "1e+22", "10", "0.0", "-0.0", "1.0", "2.0", "2"])
        elif k == "none":
            v = ""
        else:
            v = k[0] + str(rnd.randint(1, 9))
        return {"k": k, "v": v, "c": []}

    def gens_random(self, tier, rnd):
        gens = []
        for n in range(600 if tier == "quick" else 12000):
            hist = []
            for step in range(rnd.randint(1, 30 if tier == "thorough" else 12)):
                act = rnd.choice(["New", "Append", "Append", "Extend", "Insert", "IAdd", "Add", "RAdd", "Slice", "Repeat", "IMul"])
                op = {"act": act, "args": [], "i": 0, "j": 0, "n": 0}
                if act in ("New", "Append"):
                    op["args"] = [self.rand_arg(rnd, rnd.choice([0, 1, 3, 6])) for _ in range(rnd.randint(1 if act == "Append" else 0, 3))]
                    conts = [a for a in op["args"] if a["k"] in ("list", "tuple", "tl")]
                    if conts and rnd.random() < 0.4:
                        # the same container supplied twice in one call (e.g. a reused separator fragment)
                        op["args"] = op["args"] + [{"k": "str", "v": "mid", "c": []}, rnd.choice(conts)]
                elif act == "Insert":
                    op["args"] = [self.rand_arg(rnd, rnd.choice([0, 2, 5]))]
                    op["i"] = rnd.randint(-4, 6)
                elif act in ("Extend", "IAdd", "Add", "RAdd"):
                    r = rnd.random()
                    if r < 0.15:
                        a = {"k": "str", "v": rnd.choice(["xy", "", "q"]), "c": []}
                    else:
                        k = rnd.choice(["list", "tuple", "tl", "iter"]) if act in ("Extend", "IAdd") else rnd.choice(["list", "tuple", "tl"])
                        a = {"k": k, "v": "", "c": [self.rand_arg(rnd, rnd.choice([0, 2, 4]), k == "tl") for _ in range(rnd.randint(0, 3))]}
                    op["args"] = [a]
                elif act == "Slice":
                    op["i"], op["j"], op["n"] = rnd.randint(-4, 5), rnd.randint(-4, 8), rnd.choice([1, 1, 2, 3])
                else:
                    op["n"] = rnd.choice([0, 1, 2, -1])
                hist.append({"op": op})
            gens.append({"kind": "hist", "hist": hist, "recv": rnd.choice(["list", "tag"]), "salt": n})
        # the object-history machine (spec/ObjOps.tla): child operations change exactly their own list
        from .. import objhist
        gens += objhist.gens(rnd, 150 if tier == "quick" else 3000, 14)
        return gens

    def execute(self, g):
        import htmltools as H
        if g["kind"] == "objhist":
            from .. import objhist
            return objhist.execute(g, H)
        hist = run_hist(g["hist"], H, g["recv"], g.get("salt", 0))
        return {"hist": hist, "gen": g}
