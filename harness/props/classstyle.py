"""C16: class/style helpers and css().  spec/trace/ClassTrace.tla judges."""
from __future__ import annotations

from ..core import Prop, cps, uncps


def val(tag, name):
    v = tag.attrs.get(name)
    if v is None:
        return {"p": False, "t": []}
    return {"p": True, "t": cps(str(v))}


def run(init_cls, init_sty, hist, H, marked=0):
    """marked (gamma option): bit 0 / 1 - the initial class / style value is HTML(); bit 2 - tokens and declarations handed
    to add_class / add_style are HTML().  The token algebra does not depend on the marking."""
    kw = {}
    if init_cls["p"]:
        kw["class"] = H.HTML(uncps(init_cls["t"])) if marked & 1 else uncps(init_cls["t"])
    if init_sty["p"]:
        kw["style"] = H.HTML(uncps(init_sty["t"])) if marked & 2 else uncps(init_sty["t"])
    t = H.Tag("div", kw)
    # a second tag given the very same value objects (one HTML() constant used for several elements): nothing is ever
    # done to it, so nothing about it may change
    twin = H.Tag("span", dict(kw)) if marked & 8 == 0 else H.Tag("span", t.attrs)
    twin0 = (val(twin, "class"), val(twin, "style"))
    init = {"cls": val(t, "class"), "sty": val(t, "style")}
    out = []
    for step, h in enumerate(hist):
        op, tok, pre = h["op"], uncps(h["tok"]), h["pre"]
        rec = {"op": op, "tok": h["tok"], "pre": pre, "res": False, "exc": "none", "self": True, "hasAfter": False}
        if marked & 4 and op in ("add_class", "add_style") and step % 2 == 0:
            tok = H.HTML(tok)
        try:
            if op == "add_class":
                r = t.add_class(tok, prepend=pre)
                rec["self"] = r is t
                rec["hasAfter"] = bool(t.has_class(tok))
            elif op == "remove_class":
                r = t.remove_class(tok)
                rec["self"] = r is t
            elif op == "has_class":
                rec["res"] = bool(t.has_class(tok))
            elif op == "add_style":
                r = t.add_style(tok, prepend=pre)
                rec["self"] = r is t
        except ValueError:
            rec["exc"] = "ValueError"
        except Exception as ex:  # noqa
            rec["exc"] = type(ex).__name__
        if (marked >> 4) & 1 and step % 2:
            t.get_html_string()          # a rendering in between changes nothing about the stored values
        rec["cls"] = val(t, "class")
        rec["sty"] = val(t, "style")
        rec["twinSame"] = (val(twin, "class"), val(twin, "style")) == twin0
        out.append(rec)
    return init, out


class C16(Prop):
    id = "C16"
    trace_module = "ClassTrace"
    design_ref = "DESIGN.md section 3, C16"
    rule = ("histories of add_class/remove_class/has_class/add_style (both prepend settings) from every initial class "
            "value over {a, b, -, space, tab} up to the bound with tokens {a, ab, a-b, b} (TLC-enumerated), seeded random "
            "histories up to 20 operations with random tokens, and css() keyword sets.  Non-trivial: the class value has "
            "at least two tokens or a repeated token when an operation is applied, or the css key needs rewriting.")
    assumptions = [
        "class tokens judged are non-empty and whitespace-free (the statement's scope); others only produce DRIFT records",
        "class / style values and the tokens handed to the helpers are plain strings or HTML() (the token algebra does not depend on the marking)",
        "whitespace is str.split() whitespace; css keys are ASCII",
    ]

    def model_runs(self, tier):
        if tier == "quick":
            return [{"module": "MC_ClassStyle", "cfg": "ClassStyle_quick.cfg"},
                    {"module": "MC_ClassStyle", "cfg": "ClassStyle_css.cfg", "export": False}]
        return [{"module": "MC_ClassStyle", "cfg": "ClassStyle_thorough.cfg", "export": False},
                {"module": "MC_ClassStyle", "cfg": "ClassStyle_thorough_gen.cfg"},
                {"module": "MC_ClassStyle", "cfg": "ClassStyle_css.cfg", "export": False},
                {"module": "MC_ClassStyle", "cfg": "ClassStyle_sim.cfg", "simulate": "num=1000", "depth": 10, "export": False, "timeout": 900}]

    def nontrivial(self, rec):
        if rec.get("k") == "obs":
            return True
        if rec.get("k") == "css":
            return any(any(c in range(65, 91) or c == 95 for c in a["k"]) for a in rec["kw"])
        toks = uncps(rec["init"]["cls"]["t"]).split()
        return len(toks) >= 2 or any(len(uncps(h["cls"]["t"]).split()) >= 2 for h in rec["hist"])

    def gens_from_export(self, lines, tier, rnd):
        return [{"kind": "hist", "cls": ln["init"], "sty": {"p": False, "t": []}, "marked": [0, 0, 1, 5][i % 4],
                 "hist": [{"op": h["op"], "tok": h["tok"], "pre": h["pre"]} for h in ln["hist"]]} for i, ln in enumerate(lines)]

    def gens_random(self, tier, rnd):
        gens = []
        toks = ["a", "ab", "a-b", "b", "foo", "foo-x", "foobar", "x_1", "é", "Z9", "b-", "[&>p]:mt-0", "a&b", "x<y", "q\"r", "it's"]
        decls = ["x;", "color: red;", "z", "", "a:b;c:d;", " lead;", "w: 1", "p; ", "q;\n", "r;\t", ";", " "]
        for _ in range(500 if tier == "quick" else 10000):
            n = rnd.randint(0, 5)
            init = rnd.choice(["", " ", "\t", "  "]).join(rnd.choice(toks) for _ in range(n)) if n else rnd.choice(["", " ", None])
            if init is not None and rnd.random() < 0.3:
                init = rnd.choice([" ", "\n", ""]) + init + rnd.choice([" ", "\t ", ""])
            hist = []
            for _ in range(rnd.randint(1, 20 if tier == "thorough" else 8)):
                op = rnd.choice(["add_class", "add_class", "remove_class", "remove_class", "has_class", "add_style"])
                tok = rnd.choice(decls) if op == "add_style" else rnd.choice(toks)
                hist.append({"op": op, "tok": cps(tok), "pre": rnd.random() < 0.5})
            marked_ = rnd.choice([0, 0, 1, 2, 3, 5, 7]) + rnd.choice([0, 8]) + rnd.choice([0, 16])
            if marked_ & 1 and any(set(uncps(h_["tok"])) & set("&<>\"'") for h_ in hist):
                # (a plain token with such a character is STORED escaped inside an HTML() class value - C03 -, so the stored
                #  text is not the token text; that combination is exercised by the `marked_special` scenario instead)
                marked_ &= ~5
            sty = rnd.choice([None, None, "q:1;", "k", "", " ", "q:1; "])
            gens.append({"kind": "hist", "cls": {"p": init is not None, "t": cps(init or "")},
                         "sty": {"p": sty is not None, "t": cps(sty or "")}, "hist": hist,
                         # (HTML() tokens are only added to HTML() values: merging a plain value with an HTML() one stores
                         #  the plain part escaped - C03 - and a line break between tokens would no longer be whitespace)
                         "marked": marked_})
        for tok in ["a&b", "[&>p]:mt-0", "x<y", "q\"r", "it's", "plain"]:
            for first in ("x", "x y", "p&amp;q"):
                for pre in (False, True):
                    gens.append({"kind": "marked_special", "tok": tok, "first": first, "pre": pre})
        keys = ["a", "a_b", "aB", "AB", "a_B", "aBC", "ABc", "font_size", "backgroundColor", "x", "WebkitBoxFlex", "a__b", "_a", "a_"]
        # (equal numbers of different types next to each other: 1 / 1.0 / True, 0 / 0.0 / -0.0 / False)
        vals = [None, "v", 1, 2.5, "12px", "a b", 0, 1.0, True, 0.0, -0.0, False, "1", 1, 1.0, True]
        for _ in range(400 if tier == "quick" else 8000):
            ks = rnd.sample(keys, rnd.randint(0, 4))
            gens.append({"kind": "css", "kw": [[k, rnd.choice(vals)] for k in ks]})
        for k in ("opacity", "z_index", "flexGrow"):
            for v1 in (1, 1.0, True, 0, 0.0, -0.0, False):
                for v2 in (1, 1.0, True, 0, 0.0, -0.0, False):
                    gens.append({"kind": "css", "kw": [[k, v1]]})
                    gens.append({"kind": "css", "kw": [[k, v2], ["a", "b"]]})
        return gens

    def execute(self, g):
        import htmltools as H
        if g["kind"] == "hist":
            init, hist = run(g["cls"], g["sty"], g["hist"], H, g.get("marked", 0))
            return {"k": "hist", "init": init, "hist": hist, "gen": g}
        if g["kind"] == "marked_special":
            # the token laws through the helpers' own eyes, for a plain token merged into an HTML() class value
            t = H.Tag("div", {"class": H.HTML(g["first"])})
            others = g["first"].split()
            r1 = t.add_class(g["tok"], prepend=g["pre"])
            t.get_html_string()
            ok = r1 is t and t.has_class(g["tok"]) and all(t.has_class(o) for o in others) and not t.has_class("nope")
            ok = ok and str(t.attrs["class"]).split()[0 if g["pre"] else -1] in (g["tok"], H.html_escape(g["tok"], attr=True))
            r2 = t.remove_class(g["tok"])
            ok = ok and r2 is t and not t.has_class(g["tok"]) and str(t.attrs.get("class", "")).split() == others
            return {"k": "obs", "name": "AddClassMakesTokenPresentWithoutDisturbingOthers", "holds": bool(ok), "gen": g}
        kw = {k: v for k, v in g["kw"]}
        out = H.css(**kw)
        accepted = True
        if out is not None:
            try:
                H.Tag("div").add_style(out)
            except Exception:  # noqa
                accepted = False
        return {"k": "css", "kw": [{"k": cps(k), "none": v is None, "v": cps("" if v is None else str(v))} for k, v in g["kw"]],
                "out": {"p": out is not None, "t": cps(out or "")}, "accepted": accepted, "gen": g}
