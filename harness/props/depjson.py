"""C13: serialised dependencies round-trip through HTML text."""
from __future__ import annotations

import re

from ..core import Prop, cps, uncps
from .. import gamma
from .parse import tokenize

PH = '<meta name="deps-go-here">'
HOSTILE_FIELDS = ["</script>", "</SCRIPT>", "</ScRiPt >", "</script\n>", "<\\/script>", "\\</script>", "<</script>>", "</scrip", "</script",
                  "a\"b", "back\\slash", "new\nline", "é日本", "\U0001F600", "<!--", "-->", "]]>", "&amp;", "'", "\t", "\u2028",
                  "</style>", "<script>", "%7B", "{\"name\": \"x\"}", " "]


def dep_fields(d):
    head = d.head.get_html_string() if d.head is not None else None
    return {"name": d.name, "version": str(d.version), "source": d.source, "script": d.script, "stylesheet": d.stylesheet,
            "meta": d.meta, "all_files": d.all_files, "head": head}


def make_dep(H, rnd, hostile=True, name=None, hostile_head=True):
    f = (lambda: rnd.choice(HOSTILE_FIELDS)) if hostile else (lambda: rnd.choice(["a", "b.js", "x y"]))
    kw = {}
    r = rnd.random()
    if r < 0.4:
        kw["source"] = {"subdir": "lib/" + f()}
    elif r < 0.7:
        kw["source"] = {"href": "https://x/" + f()}
    if rnd.random() < 0.7:
        kw["script"] = [{"src": f(), "type": f()} for _ in range(rnd.randint(1, 2))]
    if rnd.random() < 0.5:
        kw["stylesheet"] = {"href": f(), "media": f()}
    if rnd.random() < 0.5:
        kw["meta"] = [{"name": f(), "content": f()}]
    if rnd.random() < 0.6 and not (hostile and not hostile_head):
        kw["head"] = rnd.choice([f(), H.tags.title(f()), H.TagList(H.tags.meta(name=f(), content=f()), H.tags.div(H.tags.div("x"), H.tags.p(f()))),
                                 H.HTML("<script>var a = '" + f() + "';</script>")])
    elif rnd.random() < 0.6:
        # hostile strings only where the library escapes them: head markup itself stays well-formed, so that
        # "the same markup" can be compared through the tokenizer
        kw["head"] = rnd.choice([H.tags.title(f()), H.TagList(H.tags.meta(name=f(), content=f()), H.tags.div(H.tags.div("x"), H.tags.p(f())))])
    kw["all_files"] = rnd.random() < 0.3
    return H.HTMLDependency(name if name is not None else "n" + f(), rnd.choice(["1.0", "0.0.1", "2.10.3"]), **kw)


def scan(text, headstr):
    out = []
    pat = re.compile("|".join(filter(None, [r"⟦T(\d)⟧", re.escape(PH), "data-html-dependency", re.escape(headstr) if headstr else None])))
    for m in pat.finditer(text):
        s = m.group(0)
        if s == PH:
            out.append(["ph", 0])
        elif headstr and s == headstr:
            out.append(["head", 0])
        elif s == "data-html-dependency":
            out.append(["ser", 0])
        else:
            out.append(["text", int(m.group(1))])
    return out


def head_markup(deps, H, lib_prefix="lib", include_version=True):  # noqa
    """What HTMLDocument puts in <head> after <meta charset>, for these dependencies (rendered by the library)."""
    doc = H.HTMLDocument(H.tags.html(H.tags.head(), *deps)).render(lib_prefix=lib_prefix, include_version=include_version)["html"]
    start = doc.index('<meta charset="utf-8"/>') + len('<meta charset="utf-8"/>')
    end = doc.rindex("</head>")
    return doc[start:end]


class C13(Prop):
    id = "C13"
    trace_module = "JsonTrace"
    design_ref = "DESIGN.md section 3, C13"
    rule = ("(i) every string up to the bound over an alphabet with the letter blocks script/SCRIPT/Script (TLC) as a field of "
            "a real dependency, plus dependencies whose every string field is hostile; (ii) every text of up to 4 segments "
            "over {two texts, three serialisations of two dependencies, placeholder} (TLC) and seeded random longer texts; "
            "(iii) json render mode.  Non-trivial: a field contains '</script' in some letter case or a quote/backslash/"
            "line break, or the text holds a repeated serialisation or two placeholders.")
    assumptions = [
        "field-wise equality of the recovered dependency uses Python equality on the fields the statement lists; head is "
        "compared as rendered markup",
        "the markup HTMLDocument puts in <head> is obtained from HTMLDocument itself (C11 checks it) and compared as text",
        "surrounding text never contains the opening tag of a serialised dependency script",
    ]

    def model_runs(self, tier):
        if tier == "quick":
            return [{"module": "DepJson", "cfg": "DepJson_quick.cfg"}]
        return [{"module": "DepJson", "cfg": "DepJson_thorough.cfg", "export": False},
                {"module": "DepJson", "cfg": "DepJson_thorough_gen.cfg"}]

    def nontrivial(self, rec):
        if rec["k"] == "ser":
            t = uncps(rec["text"]).lower()
            return "script" in t[30:-9] or "\\" in t
        if rec["k"] == "doc":
            sers = [(s["dep"], s["var"]) for s in rec["segs"] if s["k"] == "ser"]
            return len(sers) > len(set(sers)) or sum(1 for s in rec["segs"] if s["k"] == "ph") >= 2 or len(sers) >= 2
        return True

    def gens_from_export(self, lines, tier, rnd):
        gens = []
        for i, ln in enumerate(lines):
            if "str" in ln:
                gens.append({"kind": "ser", "field": ln["str"], "where": ["name", "script", "head", "source", "meta"][i % 5], "indent": [None, 2, 0, 4][i % 4]})
            else:
                gens.append({"kind": "doc", "segs": ln["segs"], "seed": i, "twice": i % 3 == 0})
        return gens

    def gens_random(self, tier, rnd):
        gens = []
        for n in range(500 if tier == "quick" else 10000):
            gens.append({"kind": "hostile", "seed": rnd.getrandbits(30), "indent": rnd.choice([None, 0, 2, 4]),
                         "edit_head": rnd.choice([0, 0, 1, 2, 3])})
        for n in range(300 if tier == "quick" else 6000):
            segs = []
            for _ in range(rnd.randint(1, 9)):
                r = rnd.random()
                if r < 0.35:
                    segs.append({"k": "text", "id": rnd.randint(1, 4), "dep": 0, "var": 0})
                elif r < 0.8:
                    segs.append({"k": "ser", "id": 0, "dep": rnd.randint(1, 3), "var": rnd.choice([0, 0, 2])})
                else:
                    segs.append({"k": "ph", "id": 0, "dep": 0, "var": 0})
            gens.append({"kind": "doc", "segs": segs, "seed": n, "prefix": rnd.choice(["lib", "lib", None, "a/b"]),
                         "inclver": rnd.random() < 0.5, "twice": rnd.random() < 0.4})
        for n in range(100 if tier == "quick" else 2000):
            gens.append({"kind": "mode", "seed": n})
        for n in range(8 if tier == "quick" else 80):
            gens.append({"kind": "scenario", "name": ["failed_then_good", "result_as_deps"][n % 2], "seed": n, "indent": [None, 2][n // 2 % 2]})
        return gens

    def execute(self, g):
        import random
        import htmltools as H
        rnd = random.Random(g.get("seed", 0))
        if g["kind"] in ("ser", "hostile"):
            if g["kind"] == "ser":
                s = uncps(g["field"])
                w = g["where"]
                kw = {}
                name = "nm"
                if w == "name":
                    name = s
                elif w == "script":
                    kw["script"] = {"src": s, "integrity": s}
                elif w == "head":
                    kw["head"] = H.HTML(s)
                elif w == "source":
                    kw["source"] = {"href": s}
                else:
                    kw["meta"] = {"name": s, "content": s}
                d = H.HTMLDependency(name, "1.0", **kw)
            else:
                d = make_dep(H, rnd)
            if g.get("edit_head"):
                # the dependency's public head field changed after construction: what is serialised is the dependency as it is
                if g["edit_head"] == 1:
                    d.head = H.TagList(H.tags.meta(name="late", content="x"), "late text")
                elif g["edit_head"] == 2 and d.head is not None:
                    d.head.append(H.tags.link(rel="late", href="l"))
                else:
                    d.head = None
            text = d.serialize_to_script_json(indent=g["indent"]).get_html_string()
            equal, head_same = False, False
            try:
                doc = H.HTMLTextDocument("<html><head>" + PH + "</head><body>pre " + text + " post</body></html>", deps_replace_pattern=PH)
                got = doc.render()["dependencies"]
                if len(got) == 1:
                    a, b_ = dep_fields(d), dep_fields(got[0])
                    head_same = a.pop("head") == b_.pop("head")
                    equal = a == b_
            except Exception:  # noqa
                pass
            return {"k": "ser", "text": cps(text), "equal": equal, "headSame": head_same, "gen": g}
        if g["kind"] == "doc":
            deps = {i: make_dep(H, rnd, hostile=(i == 3), name=f"dep{i}", hostile_head=False) for i in (1, 2, 3)}
            deco = ["<p>", " </p>\n", "<!-- c -->", " <script>var x = 1;</script> ", "\r\n", "</div>", "&amp;",
                    "<body>", "</head>\n<body id='b'>", "<html><head>"]
            parts = []
            for s in g["segs"]:
                if s["k"] == "text":
                    parts.append(rnd.choice(deco) + f"⟦T{s['id']}⟧" + rnd.choice(deco))
                elif s["k"] == "ser":
                    parts.append(deps[s["dep"]].serialize_to_script_json(indent=s["var"] or None).get_html_string())
                else:
                    parts.append(PH)
            text = "".join(parts)
            tdoc = H.HTMLTextDocument(text, deps_replace_pattern=PH)
            prefix, inclver = g.get("prefix", "lib"), g.get("inclver", True)
            try:
                if g.get("twice"):
                    # the same document object rendered before, with other settings: render() keeps no state
                    tdoc.render(lib_prefix="earlier", include_version=not inclver)
                res = tdoc.render(lib_prefix=prefix, include_version=inclver)
            except Exception:  # noqa: whatever the dependencies contain, rendering must not fail
                return {"k": "doc", "segs": g["segs"], "deps": [-1], "rest": [], "rendered": [], "headEmpty": False,
                        "untouched": False, "insEv": [], "docEv": [], "gen": g}
            got = res["dependencies"]
            ids = []
            for d in got[:11]:
                m = re.match(r"dep(\d)$", d.name)
                i = int(m.group(1)) if m else 0
                ids.append(i if i in deps and dep_fields(deps[i]) == dep_fields(d) else -1)
            rest_expected = "".join(p for p, s in zip(parts, g["segs"]) if s["k"] != "ser")
            # what remains after extraction: rendered with a placeholder that cannot occur (public API only)
            NEVER = "\uffff<never>\uffff"
            rest_text = H.HTMLTextDocument(text, deps_replace_pattern=NEVER).render()["html"]
            # a text holds at most 3 distinct dependencies: a longer list is already wrong (the `deps` field shows it) and
            # its head markup is not worth projecting (a changed library may return lists that grow with every document)
            overlong = len(got) > 10
            if overlong:
                return {"k": "doc", "segs": g["segs"], "deps": ids[:10] + [-1], "rest": [], "rendered": [], "headEmpty": False,
                        "untouched": False, "insEv": [], "docEv": [], "gen": g}
            headstr = head_markup(got, H, prefix, inclver) if got and not overlong else ""
            pieces = rest_expected.split(PH)
            html = res["html"]
            ins, marks = "", None
            if len(pieces) > 1:
                pre, suf = pieces[0], PH.join(pieces[1:])
                if html.startswith(pre) and html.endswith(suf) and len(html) >= len(pre) + len(suf):
                    ins = html[len(pre): len(html) - len(suf)] if not overlong else ""
                    marks = scan(pre, "") + [["head", 0]] + scan(suf, "")
            if marks is None:
                marks = scan(html, "")
            return {"k": "doc", "segs": g["segs"], "deps": ids, "rest": scan(rest_text, ""), "rendered": marks,
                    "headEmpty": False, "untouched": rest_text == rest_expected,
                    "insEv": tokenize(ins), "docEv": tokenize(headstr), "gen": g}
        if g["kind"] == "scenario":
            obs = lambda nm, holds: {"k": "obs", "name": nm, "holds": bool(holds), "gen": g}
            mk = lambda n: make_dep(H, rnd, hostile=False, name=n, hostile_head=False)
            a, b_, given = mk("a"), mk("b"), mk("given")
            ser = lambda d: d.serialize_to_script_json(indent=g.get("indent")).get_html_string()
            names = lambda r: [d.name for d in r["dependencies"]]
            if g["name"] == "failed_then_good":
                # a construction that fails half-way (the second serialised script is not JSON) leaves nothing behind in the
                # list the caller handed in; a later document built with the same list recovers each dependency once
                L = [given]
                broken = '<script type="application/json" data-html-dependency="">{"name": "x", </script>'
                try:
                    H.HTMLTextDocument("<p>" + ser(a) + broken + "</p>", deps=L, deps_replace_pattern=PH)
                    failed = False
                except Exception:  # noqa
                    failed = True
                doc = H.HTMLTextDocument("<head>" + PH + "</head>" + ser(a) + "x" + ser(b_) + ser(a), deps=L, deps_replace_pattern=PH)
                return obs("OncePerDistinctSerialisationInOrderOfAppearance", failed and names(doc.render()) == ["given", "a", "b"])
            # what render() returns is the caller's: handing it to another document changes nothing about this one
            doc1 = H.HTMLTextDocument("<head>" + PH + "</head>" + ser(a), deps_replace_pattern=PH)
            r1 = doc1.render()
            doc2 = H.HTMLTextDocument("<head>" + PH + "</head>" + ser(b_), deps=r1["dependencies"], deps_replace_pattern=PH)
            r1["dependencies"].append(given)
            ok = names(doc1.render()) == ["a"] and names(doc2.render())[:2] == ["a", "b"] and doc1.render()["html"] == r1["html"]
            return obs("OncePerDistinctSerialisationInOrderOfAppearance", ok)
        if g["kind"] == "mode":
            # incl. two versions of one name: direct rendering resolves them, and so must the json-mode round trip
            deps = [make_dep(H, rnd, hostile=rnd.random() < 0.5, name=f"m{i % 2}", hostile_head=False) for i in range(rnd.randint(0, 4))]
            x = H.tags.div("a", H.tags.span(*deps[:1]), *deps[1:], deps[0] if deps else None)
            old = H.html_dependency_render_mode
            try:
                H.html_dependency_render_mode = "json"
                s = str(x)
                if g["seed"] % 2:
                    # the same tree (and an equal, separately built one) written in json mode again: every rendering is complete
                    s2, s3 = str(x), repr(x)
                    s = s3 if g["seed"] % 4 == 1 else s2
            finally:
                H.html_dependency_render_mode = old
            direct = x.render()
            td = H.HTMLTextDocument("<html><head>" + PH + "</head><body>" + s + "</body></html>", deps_replace_pattern=PH).render()
            deps_equal = [dep_fields(d) for d in td["dependencies"]] == [dep_fields(d) for d in direct["dependencies"]]
            headstr = head_markup(direct["dependencies"], H) if direct["dependencies"] else ""
            want = "<html><head>" + headstr + "</head><body>" + direct["html"] + "</body></html>"
            return {"k": "mode", "depsEqual": bool(deps_equal), "gotEv": tokenize(td["html"]), "wantEv": tokenize(want), "gen": g}
        raise ValueError(g["kind"])
