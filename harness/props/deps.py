"""C10: dependencies are validated, then resolve one per name to the highest
version.  spec/trace/DepTrace.tla judges."""
from __future__ import annotations

import types

from ..core import Prop

NODEP = {"name": "", "ver": [], "pl": ""}

SOURCES = {
    "none": None, "subdir": {"subdir": "x"}, "package+subdir": {"package": "htmltools", "subdir": "lib"},
    "href": {"href": "https://example.org/x"}, "package-only": {"package": "htmltools"}, "empty-dict": {},
    "str": "lib/", "list": ["lib"],
}


def items(cls, key, extra=None):
    ok1 = {key: "a.x"}
    ok2 = {key: "b.x", "type": "t"}
    if extra:
        ok1.update(extra)
        ok2.update(extra)
    return {
        "none": None, "one": dict(ok1), "list": [dict(ok1), dict(ok2)], "empty-list": [],
        # an item that has other attributes (rel, type, media, ...) but not the required key
        "other-attrs-only": {"rel": "stylesheet", "type": "t", "media": "print", **(extra or {})},
        "missing-key": {"other": "a.x", **(extra or {})}, "empty-item": {}, "non-dict": "css/rel-src-href-name-content.x",
        "list-with-missing": [dict(ok1), {"zzz": "y", **(extra or {})}], "list-with-non-dict": [dict(ok1), "b.x"],
        "missing-content": {key: "a.x"},
        "mapping-item": [dict(ok1), types.MappingProxyType(dict(ok2))],
    }[cls]


def place(deps, rnd):
    """gamma: a tree whose pre-order dependency sequence is `deps`."""
    def group(seq, depth):
        out = []
        i = 0
        while i < len(seq):
            r = rnd.random()
            if depth < 4 and r < 0.35:
                j = rnd.randint(i, len(seq))
                out.append({"k": "t", "c": group(seq[i:j], depth + 1), "d": NODEP})
                i = j
            elif r < 0.5:
                out.append({"k": "x", "c": [], "d": NODEP})
            else:
                out.append({"k": "d", "c": [], "d": seq[i]})
                i += 1
        return out
    return {"k": "t", "c": group(list(deps), 0), "d": NODEP}


def build(x, H, alias=None, display=False):
    """alias (gamma option): equal abstract dependencies are ONE object placed at several positions
    (a dependency shared by several components) instead of equal-but-distinct objects."""
    if x["k"] == "d":
        d = x["d"]
        key = (d["name"], tuple(d["ver"]), d["pl"])
        if alias is not None and key in alias:
            return alias[key]
        o = H.HTMLDependency(d["name"], ".".join(map(str, d["ver"])), head=d["pl"])
        if alias is not None:
            alias[key] = o
        return o
    if x["k"] == "x":
        return "leaf"
    kids = [build(c, H, alias, display) for c in x["c"]]
    if display:
        # gamma option: the children are DISPLAYED one by one inside a `with tag:` block
        import sys
        t = H.tags.div()
        saved = sys.displayhook
        sys.displayhook = lambda value: None
        try:
            with t:
                for k_ in kids:
                    sys.displayhook(k_)
        finally:
            sys.displayhook = saved
        return t
    return H.tags.div(*kids)


def proj(deps):
    out = []
    for d in deps:
        head = d.head.get_html_string() if d.head is not None else ""
        out.append({"name": d.name, "ver": [int(s) for s in str(d.version).split(".")], "pl": head})
    return out


def _rendered(t, g, H):
    """render()'s dependency list; for one case in three the tree sits inside the expansion of a tagifiable component
    (one more nesting level: what render() reports is collected after the expansion)."""
    if g.get("wrap"):
        from .. import gamma
        return H.tags.div("w", gamma.Tfy(lambda: t)).render()["dependencies"]
    return t.render()["dependencies"]


class C10(Prop):
    id = "C10"
    trace_module = "DepTrace"
    design_ref = "DESIGN.md section 3, C10"
    rule = ("dependency sequences: every sequence up to the bound over 3 names x versions {1.9, 1.10, 1.10.0, 2} x 2 "
            "distinguishable payloads (TLC), each placed at random nesting in a tree (same pre-order sequence), and seeded "
            "random multisets with random release versions; every definition shape (8 source x 10 script x 10 stylesheet x 11 "
            "meta classes).  Non-trivial: the sequence repeats a name, or the definition has an invalid part.")
    assumptions = [
        "versions are release segments only (no pre/post/dev parts); their order is re-derived in the spec from the segments",
        "objects of equal name and version are distinguished by their head markup",
    ]

    def model_runs(self, tier):
        if tier == "quick":
            return [{"module": "MC_Deps", "cfg": "Deps_quick.cfg"}]
        return [{"module": "MC_Deps", "cfg": "Deps_thorough.cfg", "export": False},
                {"module": "MC_Deps", "cfg": "Deps_thorough5.cfg", "export": False},
                {"module": "MC_Deps", "cfg": "Deps_thorough_gen.cfg"},
                {"module": "MC_Deps", "cfg": "Deps_sim.cfg", "simulate": "num=200", "depth": 12, "export": False, "timeout": 900}]

    def nontrivial(self, rec):
        if rec["k"] == "resolve":
            names = []

            def walk(x):
                if x["k"] == "d":
                    names.append(x["d"]["name"])
                for c in x["c"]:
                    walk(c)
            walk(rec["tree"])
            return len(set(names)) < len(names)
        d = rec["def"]
        return any(v not in ("none", "one", "list", "empty-list", "subdir", "package+subdir", "href") for v in d.values())

    def gens_from_export(self, lines, tier, rnd):
        gens = []
        for ln in lines:
            if ln["deps"]:
                for rep in range(2):
                    gens.append({"kind": "resolve", "tree": place(ln["deps"], rnd), "alias": rep == 1, "doc": len(gens) % 3 == 0})
            else:
                gens.append({"kind": "def", "def": ln["def"]})
        return gens

    def gens_random(self, tier, rnd):
        gens = []
        for _ in range(1500 if tier == "quick" else 30000):
            names = [f"n{i}" for i in range(rnd.randint(1, 5))]
            deps = []
            for _ in range(rnd.randint(0, 12)):
                ver = [rnd.choice([0, 1, 2, 9, 10, 11]) for _ in range(rnd.randint(1, 4))]
                deps.append({"name": rnd.choice(names), "ver": ver, "pl": rnd.choice("pqr")})
            gens.append({"kind": "resolve", "tree": place(deps, rnd), "alias": rnd.random() < 0.4, "doc": rnd.random() < 0.4,
                         "display": rnd.random() < 0.25, "wrap": rnd.random() < 0.33})
        for _ in range(200 if tier == "quick" else 4000):
            deps = [{"name": rnd.choice("ab"), "ver": rnd.choice([[1, 10], [1, 10, 0], [1, 9], [2]]), "pl": rnd.choice("pq")}
                    for _ in range(rnd.randint(2, 6))]
            gens.append({"kind": "remove", "deps": deps, "j": rnd.randrange(len(deps)), "how": rnd.randrange(2)})
        return gens

    def execute(self, g):
        import htmltools as H
        if g["kind"] == "resolve":
            t = build(g["tree"], H, {} if g.get("alias") else None, display=g.get("display", False))
            got = t.get_dependencies()
            # the same forest as the content of a document (the only tag among the top-level items - if there is exactly
            # one - being the caller's own <body>): what is reported does not depend on where the objects sit
            if not g.get("doc", True):
                # (the document views are taken for every third case: they triple the cost of a case)
                return {"k": "resolve", "tree": g["tree"], "got": proj(got), "gotDoc": proj(got), "gotDocGrown": proj(got), "fragSame": True,
                        "gotNoDedup": proj(t.get_dependencies(dedup=False)),
                        "gotTagifiedNoDedup": proj(t.tagify().get_dependencies(dedup=False)),
                        "gotRender": proj(_rendered(t, g, H)),
                        "gotTwice": proj(H.TagList(*got).get_dependencies()), "gen": g}
            top = [build(c, H, {} if g.get("alias") else None) for c in g["tree"]["c"]]
            tag_idx = [j for j, c in enumerate(g["tree"]["c"]) if c["k"] == "t"]
            if len(tag_idx) == 1:
                top[tag_idx[0]] = H.tags.body(*top[tag_idx[0]].children)
            got_doc = H.HTMLDocument(*top).render()["dependencies"] if top else []
            # a document rendered BEFORE the tree it holds was complete: the rest arrives through the root tag's own
            # append, then the same document object is rendered again
            kids_all = [build(c, H, {} if g.get("alias") else None) for c in g["tree"]["c"]]
            cut = len(kids_all) // 2
            root = H.tags.div(*kids_all[:cut])
            doc2 = H.HTMLDocument(root)
            doc2.render()
            if kids_all[cut:]:
                root.append(*kids_all[cut:])
            got_grown = doc2.render()["dependencies"]
            # a document built from a list: what the document gets afterwards is not in the list (and the other way round)
            frag = H.TagList(*[build(c, H, None) for c in g["tree"]["c"]])
            frag_before = proj(frag.get_dependencies(dedup=False))
            doc3 = H.HTMLDocument(frag)
            doc3.append(H.HTMLDependency("only-in-doc", "9.9"), H.tags.div(H.HTMLDependency("n0", "99.0")))
            frag_same = proj(frag.get_dependencies(dedup=False)) == frag_before
            frag.append(H.HTMLDependency("only-in-list", "9.9"))
            frag_same = frag_same and "only-in-list" not in [d.name for d in doc3.render()["dependencies"]]
            return {"k": "resolve", "tree": g["tree"], "got": proj(got), "gotDoc": proj(got_doc), "gotDocGrown": proj(got_grown), "fragSame": bool(frag_same),
                    "gotNoDedup": proj(t.get_dependencies(dedup=False)),
                    "gotTagifiedNoDedup": proj(t.tagify().get_dependencies(dedup=False)),
                    "gotRender": proj(_rendered(t, g, H)),
                    "gotTwice": proj(H.TagList(*got).get_dependencies()), "gen": g}
        if g["kind"] == "remove":
            # a flat list of dependencies from which ONE object is taken out again (list.remove / del by index of that
            # object): exactly that object is gone, also when another one has the same name and an equal version
            objs = [build({"k": "d", "c": [], "d": d_}, H) for d_ in g["deps"]]
            tl = H.TagList("x", *objs)
            victim = objs[g["j"]]
            def veq(x, y):
                n_ = max(len(x), len(y))
                return list(x) + [0] * (n_ - len(x)) == list(y) + [0] * (n_ - len(y))
            twins = [d_ for i_, d_ in enumerate(g["deps"]) if i_ != g["j"] and d_["name"] == g["deps"][g["j"]]["name"]
                     and d_["pl"] == g["deps"][g["j"]]["pl"] and veq(d_["ver"], g["deps"][g["j"]]["ver"])]
            if g["how"] == 0 and not twins:
                # (remove() goes by value: with a value-equal twin in the list it may take that one - by index then)
                tl.remove(victim)
            else:
                del tl[[i_ for i_, e_ in enumerate(tl) if e_ is victim][0]]
            rest = [d_ for i_, d_ in enumerate(g["deps"]) if i_ != g["j"]]
            t_abs = {"k": "t", "c": [{"k": "d", "c": [], "d": d_} for d_ in rest], "d": NODEP}
            got = tl.get_dependencies()
            return {"k": "resolve", "tree": t_abs, "got": proj(got), "gotDoc": proj(got), "gotDocGrown": proj(got), "fragSame": True,
                    "gotNoDedup": proj(tl.get_dependencies(dedup=False)),
                    "gotTagifiedNoDedup": proj(tl.tagify().get_dependencies(dedup=False)),
                    "gotRender": proj(tl.render()["dependencies"]),
                    "gotTwice": proj(H.TagList(*got).get_dependencies()), "gen": g}
        d = g["def"]
        kw = dict(source=SOURCES[d["source"]], script=items(d["script"], "src"),
                  stylesheet=items(d["stylesheet"], "href"),
                  meta=items(d["meta"], "name", {"content": "c"}) if d["meta"] != "missing-content" else {"name": "n"})
        if d["meta"] == "missing-key":
            kw["meta"] = {"content": "c"}
        if d["meta"] == "list-with-missing":
            kw["meta"] = [{"name": "n", "content": "c"}, {"name": "m"}]
        raised = False
        same = True
        try:
            a = H.HTMLDependency("nm", "1.0", **kw)
        except Exception:  # noqa
            raised = True
        if not raised:
            import copy
            try:
                kw2 = {k: ([copy.deepcopy(v)] if isinstance(v, dict) and k != "source" else copy.deepcopy(v)) for k, v in kw.items()}
                kw1 = copy.deepcopy(kw)
            except TypeError:
                # an argument that cannot be copied (a read-only mapping view): it should have been rejected above,
                # which the `raised` field already reports; the single-item clause does not apply
                return {"k": "def", "def": d, "raised": raised, "sameSingle": True, "gen": g}
            try:
                a = H.HTMLDependency("nm", "1.0", **kw1)
                b = H.HTMLDependency("nm", "1.0", **kw2)
                same = bool(a == b and a.as_dict() == b.as_dict() and str(a) == str(b))
            except Exception:  # noqa
                same = False
        return {"k": "def", "def": d, "raised": raised, "sameSingle": same, "gen": g}
