"""C18: deterministic output across interpreter processes, hash seeds and histories."""
from __future__ import annotations

import json
import os
import subprocess
import sys
from concurrent.futures import ThreadPoolExecutor

from ..core import Prop, REPO, VERIF, NCPU, cps
from .. import gamma


def run_schedule(order, seed):
    env = dict(os.environ, PYTHONHASHSEED=str(seed), PYTHONDONTWRITEBYTECODE="1")
    p = subprocess.run([sys.executable, str(VERIF / "harness" / "det_worker.py"), str(REPO), json.dumps(order)],
                       capture_output=True, text=True, env=env, timeout=120)
    if p.returncode != 0:
        return ["ERROR:" + p.stderr.strip().splitlines()[-1][:80] if p.stderr.strip() else "ERROR"] * len(order)
    return json.loads(p.stdout.strip().splitlines()[-1])


class C18(Prop):
    id = "C18"
    confirm = False        # the property is about nondeterminism: a violation need not reproduce
    trace_module = "DetTrace"
    design_ref = "DESIGN.md section 3, C18"
    rule = ("schedules: every order of the battery with one repetition inserted anywhere (TLC-enumerated), a seeded sample of "
            "them each run in fresh interpreter processes with several PYTHONHASHSEED values; head_content payload pairs "
            "(equal strings built differently, markup that differs only in whitespace or attribute order, different "
            "payloads).  Non-trivial: a batch holds at least two processes with different seeds or orders.")
    assumptions = [
        "observations are sha1 digests of (html, dependency order) printed by each process; processes are compared by TLC",
        "the battery covers: tree with dependencies, head_content names, HTMLDocument, HTMLTextDocument extraction, "
        "attribute/class/style helpers and css(), a JSX component, two versions of a package-sourced dependency, and a page / "
        "text document object that lives as long as the process and is rendered again whenever its item is scheduled",
    ]

    def model_runs(self, tier):
        return [{"module": "Determinism", "cfg": f"Determinism_{tier}.cfg"},
                {"module": "Determinism", "cfg": f"Determinism_{tier}2.cfg"},
                {"module": "Determinism", "cfg": "Determinism_kept.cfg"}]

    def nontrivial(self, rec):
        if rec["k"] == "runs":
            return len({(r["seed"], tuple(r["order"])) for r in rec["runs"]}) >= 2
        return True

    def gens_from_export(self, lines, tier, rnd):
        # equal shares from every battery (the batteries have very different numbers of schedules)
        by_battery = {}
        for ln in lines:
            by_battery.setdefault(frozenset(ln["order"]), []).append(ln["order"])
        groups = [sorted(v) for _, v in sorted(by_battery.items(), key=lambda kv: sorted(kv[0]))]
        for v in groups:
            rnd.shuffle(v)
        orders = [o for tup in zip(*[v + [None] * (max(map(len, groups)) - len(v)) for v in groups]) for o in tup if o is not None]
        nsched = 24 if tier == "quick" else min(len(orders), 720)
        seeds = [0, 1, 2] if tier == "quick" else [0, 1, 2, 3] + [rnd.randrange(2 ** 31) for _ in range(12)]
        picked = orders[:nsched]
        gens = []
        # one batch per group of schedules: all processes of a batch are compared with one another
        group = 8 if tier == "quick" else 12
        for i in range(0, len(picked), group):
            gens.append({"kind": "batch", "orders": picked[i:i + group], "seeds": seeds if tier == "quick" else rnd.sample(seeds, 6)})
        # always: the schedules (behaviours of the same model) in which a process-lifetime item is the repeated one
        kept = [o for o in orders if o.count(13) == 2 or o.count(14) == 2]
        if kept:
            gens.append({"kind": "batch", "orders": [next(o for o in kept if o.count(13) == 2), next(o for o in kept if o.count(14) == 2)]
                         + [o for o in orders if set(o) == {1, 5, 13, 14} and len(o) == 4][:1], "seeds": seeds[:3]})
        return gens

    def gens_random(self, tier, rnd):
        gens = [{"kind": "history", "seed": rnd.randrange(10 ** 6), "per": 80 if tier == "quick" else 400}
                for _ in range(2 if tier == "quick" else 6)]
        pool = ["<title>x</title>", "<title>x</title> ", " <title>x</title>", "<title>y</title>", "plain", "plain ", "pl" + "ain",
                "<meta a='1' b='2'>", "<meta b='2' a='1'>", "", " ", "<b>é</b>", "<b>é</b>"]
        # payloads that differ only where an encoder might substitute (lone surrogates are refused today)
        pool += ["caf\udce9", "caf\udce8", "caf?", "caf\ufffd", "x\ud800", "x?"]
        # directed: every pair of the look-alike payloads, through every way of making a head_content
        alike = ["caf\udce9", "caf\udce8", "caf?", "caf\ufffd", "x", "y", "x ", "<title>x</title>"]
        for how in ("html", "str", "tag", "title", "withdep_json"):
            for i_, a_ in enumerate(alike):
                for b_ in alike[i_:]:
                    gens.append({"kind": "pair", "a": a_, "b": b_, "how": how})
        for _ in range(450 if tier == "quick" else 4500):
            a = rnd.choice(pool) if rnd.random() < 0.7 else gamma.rand_text(rnd, 12)
            b = rnd.choice(pool + [a, a]) if rnd.random() < 0.8 else gamma.rand_text(rnd, 12)
            gens.append({"kind": "pair", "a": a, "b": b, "how": rnd.choice(["html", "str", "tag", "title", "title", "withdep", "withdep_json", "mode_mix"])})
        return gens

    # constructions borrowed from the other properties' drivers: each is executed twice in THIS process, the second
    # time after everything else has run and in the opposite order; what the library does for a construction must not
    # depend on what was built or rendered before it (memo caches, module-level state, shared defaults, ...)
    HISTORY_FROM = ["C02", "C03", "C04", "C14", "C15", "C16", "C10", "C11", "C13", "C19", "C20", "C08", "C05"]

    def history_items(self, g):
        import random
        from ..registry import get_prop
        items = []
        for pid in self.HISTORY_FROM:
            prop = get_prop(pid)
            gens = prop.gens_random("quick", random.Random(g["seed"] * 1000 + int(pid[1:])))
            rnd = random.Random(g["seed"] + int(pid[1:]))
            rnd.shuffle(gens)
            # always include the long-text twins (the same characters as a plain string in one item, as HTML() in another)
            twins = [x for x in gens if not x.get("prime") and len(x.get("s", [])) >= 200]
            for gen in twins + gens[: g["per"]]:
                if gen.get("kind") in ("cprange", "batch"):
                    continue
                items.append((prop, gen))
        return items

    def history_run(self, g, order_name):
        """Executed inside a fresh interpreter (harness/hist_worker.py): all items in one order, one digest per item."""
        import hashlib
        import random
        from ..core import canon
        items = self.history_items(g)
        order = list(range(len(items)))
        if order_name == "backward":
            order.reverse()
        elif order_name != "forward":
            random.Random(order_name).shuffle(order)
        obs = []
        for idx in order:
            prop, gen = items[idx]
            try:
                r = prop.execute(gen)
            except Exception as ex:  # noqa
                r = {"raised": type(ex).__name__}
            rs = r if isinstance(r, list) else [r]
            clean = [{k: v for k, v in x.items() if k not in ("gen", "_module")} for x in rs if x is not None]
            obs.append(hashlib.sha1(canon(clean).encode()).hexdigest()[:16])
        return [i + 1 for i in order], obs

    def history_record(self, g):
        # one fresh interpreter per order: a construction's result must not depend on what ran before it
        orders = ["forward", "backward"] + [f"shuffle{k}" for k in range(g.get("shuffles", 1))]

        def spawn(name):
            env = dict(os.environ, PYTHONHASHSEED="0", PYTHONDONTWRITEBYTECODE="1", VERIF_REPO=str(REPO))
            p = subprocess.run([sys.executable, str(VERIF / "harness" / "hist_worker.py"), json.dumps(g), name],
                               capture_output=True, text=True, env=env, timeout=900, cwd=str(VERIF))
            if p.returncode != 0:
                from ..core import MachineryError
                raise MachineryError("history worker failed: " + (p.stderr.strip().splitlines() or ["?"])[-1][:200])
            return json.loads(p.stdout.strip().splitlines()[-1])
        with ThreadPoolExecutor(len(orders)) as ex:
            outs = list(ex.map(spawn, orders))
        runs = [{"p": i + 1, "seed": 0, "order": o["order"], "obs": o["obs"]} for i, o in enumerate(outs)]
        return {"k": "runs", "runs": runs, "gen": g}

    def execute(self, g):
        import htmltools as H
        if g["kind"] == "history":
            return self.history_record(g)
        if g["kind"] == "batch":
            jobs = [(o, s) for o in g["orders"] for s in g["seeds"]]
            with ThreadPoolExecutor(NCPU) as ex:
                outs = list(ex.map(lambda j: run_schedule(*j), jobs))
            for out in outs:
                if any(str(x).startswith("ERROR") for x in out):
                    from ..core import MachineryError
                    raise MachineryError(f"determinism worker failed: {out[0]}")
            runs = [{"p": i + 1, "seed": s, "order": o, "obs": out} for i, ((o, s), out) in enumerate(zip(jobs, outs))]
            return {"k": "runs", "runs": runs, "gen": g}
        how = g["how"]

        def mk(s, which=0):
            if how in ("withdep", "withdep_json", "mode_mix"):
                # payloads that also carry a dependency (which never shows in the rendered head content), constructed
                # under either dependency render mode: the name is a function of the rendered content only
                dep = H.HTMLDependency("hd" + str(which if how != "mode_mix" else 0), "1.0", script={"src": "f.js"})
                old = H.html_dependency_render_mode
                try:
                    if how == "withdep_json" or (how == "mode_mix" and which == 1):
                        H.html_dependency_render_mode = "json"
                    return H.head_content(H.tags.title(s), dep)
                finally:
                    H.html_dependency_render_mode = old
            if how == "title":
                return H.head_content(H.tags.title(s))         # a payload that is exactly one well-known element
            if how == "html":
                return H.head_content(H.HTML(s))
            if how == "str":
                return H.head_content(s)
            return H.head_content(H.tags.title(s), H.tags.meta(name="n", content=s))
        try:
            da, db = mk(g["a"], 0), mk(g["b"], 1)
        except UnicodeEncodeError:
            # a payload the library refuses (a lone surrogate cannot be hashed): nothing was named, nothing can be merged
            return {"k": "pair", "nameA": "refused-a", "nameB": "refused-b", "sameContent": False, "countInDoc": 2, "countInText": 2, "gen": g}
        ra, rb = da.head.get_html_string(), db.head.get_html_string()
        doc = H.HTMLDocument(H.tags.div(da, "x", H.tags.span(db))).render()
        # the same through the json path: three fragments rendered separately (A, something else, B), concatenated and
        # post-processed as one document
        other = H.HTMLDependency("between", "1.0", script={"src": "b.js"})
        old = H.html_dependency_render_mode
        try:
            H.html_dependency_render_mode = "json"
            frags = [str(H.tags.div(da, "a")), str(H.tags.p(other)), str(H.tags.div("b", db))]
        finally:
            H.html_dependency_render_mode = old
        tdoc = H.HTMLTextDocument("<html><head>PH</head><body>" + "".join(frags) + "</body></html>", deps_replace_pattern="PH").render()
        return {"k": "pair", "nameA": da.name, "nameB": db.name, "sameContent": ra == rb,
                "countInDoc": len([d for d in doc["dependencies"] if d.name.startswith("headcontent_")]),
                "countInText": len([d for d in tdoc["dependencies"] if d.name.startswith("headcontent_")]), "gen": g}
