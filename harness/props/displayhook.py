"""C17: the Tag context manager and sys.displayhook.  TLC-generated programs
(spec/DisplayHook.tla) and seeded random programs are executed as genuine
`with tag:` statements; spec/trace/DHTrace.tla replays each recorded run
through the specification's step function."""
from __future__ import annotations

import sys

from ..core import Prop
from .. import gamma


class Unwind(Exception):
    pass


class UserErr(Exception):
    pass


class PerInstance:
    """valid as a child only if THIS instance was given a tagify() (or _repr_html_) of its own"""


class ReprTuple(tuple):
    """a record type (NamedTuple-like) that renders itself"""
    def _repr_html_(self):
        return "<r>"


class ReprStr(str):
    def _repr_html_(self):
        return "<r>"


def conc_val(v, H, shared=None):
    if v == "dep":
        return shared
    if v == "depeq":
        return H.HTMLDependency("shared", "1.0")
    if v == "false":
        return False
    if v == "zerof":
        return 0.0
    if v == "emptyhtml":
        return H.HTML("")
    if v == "emptydict":
        return {}
    if v == "emptyset":
        return set()
    if v in ("itfy", "ibad"):
        o = PerInstance()
        if v == "itfy":
            o.tagify = lambda: "e"
        return o
    if v == "fraction":
        import fractions
        return fractions.Fraction(1, 2)
    if v == "decimal":
        import decimal
        return decimal.Decimal("1.50")
    if v == "complex":
        return 3 + 4j
    if v == "reprtuple":
        return ReprTuple((1, 2))
    if v == "reprstr":
        return ReprStr("plain <text>")
    if v == "str":
        return "text"
    if v == "num":
        return 7
    if v == "zero":
        return 0
    if v == "empty":
        return ""
    if v == "none":
        return None
    if v == "dots":
        return Ellipsis
    if v == "repr":
        return gamma.ReprObj("<r>")
    if v == "tag":
        return H.tags.b(id="other")
    if v == "tfy":
        t = gamma.Tfy(lambda: "e")
        return t
    if v == "list":
        sep = ["a"]           # the same inner list object at two places of one displayed value
        return [sep, 1, sep]
    if v == "bad":
        return gamma.Bad()
    if v == "badlist":
        return ["b", 1, H.TagList("c", H.tags.i("d")), gamma.Bad()]
    raise ValueError(v)


def run_program(tagnames, events, H, realbase=False, shared_list=False):
    """realbase: the outermost hook is the interpreter's own sys.__displayhook__ (which prints the repr of what it is
    handed and binds builtins._) instead of a collecting function; what it received is read back from stdout."""
    if shared_list:
        # every tag of the program was built from ONE (empty) TagList - e.g. a module-level fragment used as a template
        template = H.TagList()
        tags = {t: H.Tag("div", template, id=t) for t in tagnames}
    else:
        tags = {t: H.Tag("div", id=t) for t in tagnames}
    shared = H.HTMLDependency("shared", "1.0")
    base_log = []

    def label(x):
        if isinstance(x, H.Tag):
            return "t:" + str(x.attrs.get("id"))
        return "v:" + type(x).__name__

    def base(value):
        if value is not None:
            base_log.append(label(value))

    if realbase:
        import builtins
        import io
        import re as _re
        base = sys.__displayhook__
        capture = io.StringIO()
    hook_of = {id(base): "base"}
    keep = [base]

    def proj_kids():
        out = {}
        for t, tg in tags.items():
            items = []
            for c in tg.children:
                if isinstance(c, H.HTML):
                    items.append("h:" + str(c))
                elif isinstance(c, str):
                    items.append("s:" + c)
                elif isinstance(c, H.Tag):
                    items.append("t:" + str(c.attrs.get("id")))
                elif isinstance(c, H.HTMLDependency):
                    items.append("d:" + c.name)
                elif isinstance(c, gamma.Tfy) or (isinstance(c, PerInstance) and hasattr(c, "tagify")):
                    items.append("f:obj")
                else:
                    items.append("o:" + type(c).__name__)
            out[t] = items
        return out

    rec = []

    def observe(i, exc, raised=False):
        h = sys.displayhook
        e = events[i]
        if realbase:
            # a handed tag is printed as its markup, starting in column 0 (nested tags are indented inside it)
            base_log[:] = ["t:" + m for m in _re.findall(r'^<div id="(t\d+)"', capture.getvalue(), _re.M)]
        rec.append({"act": e["act"], "t": e["t"], "g": e["g"], "v": e["v"],
                    "hook": hook_of.get(id(h), "?"), "exc": exc, "kids": proj_kids(), "base": list(base_log),
                    "raised": raised, "caught": False})

    class Pending(Exception):
        """carries the real exception plus where the program stood"""

    def exc_name(ex):
        if isinstance(ex, UserErr):
            return "User"
        return type(ex).__name__

    # recursive interpreter: returns the index of the next event to run
    def body(pos, cur=None):
        while pos < len(events):
            e = events[pos]
            act = e["act"]
            if act == "Exit":
                return pos          # the enclosing block() consumes it
            if act == "Enter":
                pos = block(pos)
            elif act == "Display":
                try:
                    sys.displayhook(conc_val(e["v"], H, shared))
                except BaseException as ex:
                    observe(pos, exc_name(ex))
                    ex._pos = pos + 1
                    raise
                observe(pos, "None")
                pos += 1
            elif act == "Relist":
                if cur is not None:
                    cur.children = H.TagList(*cur.children)
                observe(pos, "None")
                pos += 1
            elif act == "DisplayC":
                # the display sits in a try/except INSIDE the block: a rejected value is handled right there
                caught = False
                try:
                    sys.displayhook(conc_val(e["v"], H, shared))
                except TypeError:
                    caught = True
                observe(pos, "None")
                rec[-1]["caught"] = caught
                pos += 1
            elif act == "Raise":
                ex = UserErr()
                observe(pos, "User")
                ex._pos = pos + 1
                raise ex
        return pos

    def block(pos):
        e = events[pos]
        tg = tags[e["t"]]
        entered = [False]

        def run_with():
            with tg:
                entered[0] = True
                hook_of.setdefault(id(sys.displayhook), e["t"])
                keep.append(sys.displayhook)
                observe(pos, "None")
                p = body(pos + 1, tg)
                return p
        try:
            p = run_with()
        except BaseException as ex:
            if not entered[0]:
                # __enter__ raised: no block was opened, no Exit event belongs to it
                observe(pos, "None" if e["g"] else exc_name(ex), raised=True)
                if e["g"]:
                    return pos + 1
                ex._pos = pos + 1
                raise
            # the block was left by an exception: its __exit__ has run; that is the next Exit event
            p = getattr(ex, "_pos", pos + 1)
            if p < len(events) and events[p]["act"] == "Exit":
                observe(p, "None" if e["g"] else exc_name(ex))
                ex._pos = p + 1
            if e["g"]:
                return getattr(ex, "_pos", p)
            raise
        # normal exit: __exit__ has run
        if p < len(events) and events[p]["act"] == "Exit":
            observe(p, "None")
            return p + 1
        return p

    saved = sys.displayhook
    saved_out = sys.stdout
    sys.displayhook = base
    if realbase:
        sys.stdout = capture
        saved_underscore = getattr(builtins, "_", None)
    final = "?"
    try:
        try:
            body(0)
        except BaseException:  # noqa: the program ended with an exception at top level
            pass
        final = hook_of.get(id(sys.displayhook), "?")
    finally:
        sys.displayhook = saved
        sys.stdout = saved_out
        if realbase:
            builtins._ = saved_underscore
    return {"tags": list(tagnames), "events": rec, "final": final}


def well_formed_random(rnd, tagnames, maxevents, maxdepth):
    """A random program that the model accepts (blocks closed; after an exception only exits)."""
    events = []
    stack = []          # (t, g)
    used = set()
    exc = False
    n = 0
    vals = ["str", "num", "zero", "empty", "none", "dots", "repr", "tag", "tfy", "list", "bad", "badlist",
            "dep", "dep", "depeq", "false", "zerof", "emptyhtml", "emptydict", "emptyset", "reprtuple", "reprstr",
            "fraction", "decimal", "complex", "itfy", "itfy", "ibad"]
    BAD = ("bad", "badlist", "emptydict", "emptyset", "fraction", "decimal", "complex", "ibad")
    while n < maxevents or stack:
        if exc or n >= maxevents:
            if not stack:
                break
            t, g = stack.pop()
            events.append({"act": "Exit", "t": "", "g": False, "v": ""})
            if g:
                exc = False
            continue
        r = rnd.random()
        if r < 0.3 and len(stack) < maxdepth:
            active = [t for t, _ in stack]
            fresh = [t for t in tagnames if t not in used]
            if active and rnd.random() < 0.15:
                t = rnd.choice(active)           # re-entering an active tag: raises
                g = rnd.random() < 0.5
                events.append({"act": "Enter", "t": t, "g": g, "v": ""})
                n += 1
                if not g:
                    exc = True
                continue
            if not fresh:
                continue
            t = rnd.choice(fresh)
            g = rnd.random() < 0.4
            used.add(t)
            stack.append((t, g))
            events.append({"act": "Enter", "t": t, "g": g, "v": ""})
            n += 1
        elif r < 0.36 and stack:
            events.append({"act": "Relist", "t": "", "g": False, "v": ""})
            n += 1
        elif r < 0.45 and stack:
            events.append({"act": "DisplayC", "t": "", "g": False, "v": rnd.choice(vals + list(BAD))})
            n += 1
        elif r < 0.8 and stack:
            v = rnd.choice(vals)
            events.append({"act": "Display", "t": "", "g": False, "v": v})
            n += 1
            if v in BAD:
                exc = True
        elif r < 0.87 and stack:
            events.append({"act": "Raise", "t": "", "g": False, "v": ""})
            n += 1
            exc = True
        elif stack:
            t, g = stack.pop()
            events.append({"act": "Exit", "t": "", "g": False, "v": ""})
        else:
            n += 0
            if not [t for t in tagnames if t not in used]:
                break
    return events


class C17(Prop):
    id = "C17"
    trace_module = "DHTrace"
    design_ref = "DESIGN.md section 3, C17"
    rule = ("programs of with-blocks: every program up to the bound over 2-3 tags (TLC, with an exception possible at every "
            "point: user raise, invalid displayed value - propagating or caught inside the block -, re-entry of an active tag; "
            "guarded and unguarded blocks; 24 kinds of displayed value), run with a collecting base hook or the interpreter's "
            "own sys.__displayhook__, on tags built separately or from one TagList, and "
            "seeded random programs to depth 8 / 60 events, each run with genuine `with` statements.  Non-trivial: the "
            "program nests at least two blocks or an exception crosses a block boundary.")
    assumptions = [
        "sys.displayhook is observed by object identity only (the harness's base function; the object that became the hook "
        "when tag t was entered)",
        "re-entering a tag whose block already finished is not constrained by the statement and is not generated",
        "the harness saves and restores sys.displayhook around every run",
    ]

    def model_runs(self, tier):
        runs = [{"module": "DisplayHook", "cfg": f"DisplayHook_{tier}.cfg", "export": False},
                # inductive: every state satisfying the chain invariant is an initial state (programs of any length)
                {"module": "DisplayHookInd", "cfg": f"DisplayHookInd_{tier}.cfg", "export": False},
                {"module": "DisplayHook", "cfg": f"DisplayHook_{tier}_gen.cfg"}]
        if tier == "thorough":
            runs.append({"module": "DisplayHook", "cfg": "DisplayHook_sim.cfg", "simulate": "num=5000", "depth": 60, "export": False, "timeout": 900})
        return runs

    def nontrivial(self, rec):
        depth = 0
        mx = 0
        crossed = False
        excflag = False
        for e in rec["events"]:
            if e["act"] == "Enter" and not e.get("raised"):
                depth += 1
                mx = max(mx, depth)
            elif e["act"] == "Exit":
                if e["exc"] != "None" or excflag:
                    crossed = True
                depth -= 1
            excflag = e["exc"] != "None"
        return mx >= 2 or crossed

    def gens_from_export(self, lines, tier, rnd):
        return [{"kind": "prog", "tags": ["t1", "t2", "t3"], "events": ln["events"], "realbase": i % 5 == 0} for i, ln in enumerate(lines)]

    def gens_random(self, tier, rnd):
        gens = []
        for _ in range(1500 if tier == "quick" else 30000):
            ntags = rnd.choice([2, 4, 8, 12])
            names = [f"t{i + 1}" for i in range(ntags)]
            ev = well_formed_random(rnd, names, rnd.choice([6, 15, 60]), rnd.choice([2, 4, 8]))
            gens.append({"kind": "prog", "tags": names, "events": ev, "realbase": rnd.random() < 0.25,
                         "shared_list": rnd.random() < 0.25})
        return gens

    def execute(self, g):
        import htmltools as H
        rec = run_program(g["tags"], g["events"], H, realbase=g.get("realbase", False), shared_list=g.get("shared_list", False))
        if len(rec["events"]) != len(g["events"]):
            # the interpreter could not align the run with the program text: not a verdict
            return {"tags": g["tags"], "events": rec["events"], "final": rec["final"], "gen": g, "misaligned": True}
        rec["gen"] = g
        return rec
