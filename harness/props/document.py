"""C11: HTMLDocument builds one head/body and hoists every dependency into
head.  The abstract description handed to TLC is read off the real objects the
document was built from; spec/trace/DocTrace.tla computes the required element
tree (spec/DocumentOps.tla) and compares it with the tokenised output."""
from __future__ import annotations

from ..core import Prop, cps
from .. import gamma
from .parse import tokenize

NODEP = {"name": [], "vstr": [], "ver": [], "src": "none", "href": [], "metas": [], "links": [], "scripts": [], "head": []}


def abstract_all(xs, H):
    """Content as the statement sees it: a tagifiable object stands for its expansion (C09), spliced if a TagList."""
    out = []
    for x in xs:
        if isinstance(x, gamma.Tfy):
            r = x.tagify()
            out.extend(abstract_all(list(r) if isinstance(r, H.TagList) else [r], H))
        else:
            out.append(abstract(x, H))
    return out


def abstract(x, H):
    if isinstance(x, H.Tag):
        return {"k": "tag", "name": x.name, "attrs": [{"n": k, "v": cps(str(v))} for k, v in x.attrs.items()],
                "c": abstract_all(list(x.children), H), "t": [], "d": NODEP}
    if isinstance(x, H.HTMLDependency):
        src = x.source
        kind = "none" if src is None else ("url" if "href" in src else "local")
        d = {"name": cps(x.name), "vstr": cps(str(x.version)), "ver": [int(p) for p in str(x.version).split(".")],
             "src": kind, "href": cps(src["href"]) if kind == "url" else [],
             "metas": [{"n": cps(m["name"]), "c": cps(m["content"])} for m in x.meta],
             "links": [cps(s["href"]) for s in x.stylesheet], "scripts": [cps(s["src"]) for s in x.script],
             "head": abstract_all(list(x.head or []), H)}
        return {"k": "dep", "name": "", "attrs": [], "c": [], "t": [], "d": d}
    if isinstance(x, str):
        return {"k": "text", "name": "", "attrs": [], "c": [], "t": cps(x), "d": NODEP}
    raise TypeError(type(x))


def mk_dep(kind, H, rnd=None):
    if kind == "d0":
        return H.HTMLDependency("m", "0.3")                 # a bare marker: nothing to emit but its name in the listing
    if kind == "d6":
        return H.HTMLDependency("assets", "1.2", source={"subdir": "w"}, all_files=True)   # asset-only
    if kind == "d1":
        return H.HTMLDependency("a", "1.0", source={"subdir": "libsrc"}, script={"src": "s.js"}, stylesheet={"href": "c.css"})
    if kind == "d2":
        return H.HTMLDependency("a", "2.0", source={"subdir": "libsrc"}, meta={"name": "m", "content": "v"})
    if kind == "d3":
        return H.HTMLDependency("b", "0.1", source={"href": "h://u/"}, script={"src": "j.js"})
    if kind == "d4":
        return H.HTMLDependency("c", "1.10", source={"href": "https://cdn.example/x"}, script=[{"src": "p/q.js"}, {"src": "r.js"}],
                                stylesheet=[{"href": "t.css"}], meta=[{"name": "k", "content": "<&>"}], head=H.tags.style("b{}"))
    if kind == "d5":
        return H.HTMLDependency("c", "1.9", source={"subdir": "w"}, script={"src": "old.js"})
    if kind == "d7":    # the name AND version of d1 with other files: on a tie the one met first is the one written into <head>
        return H.HTMLDependency("a", "1.0", source={"subdir": "othersrc"}, script={"src": "other.js"})
    if kind == "hc":
        return H.head_content(H.tags.title("T"))
    if kind == "hc2":
        return H.head_content(H.tags.meta(name="viewport", content="w"), H.tags.link(rel="icon", href="i.png"))
    raise ValueError(kind)


def build(x, H):
    k = x["k"]
    if k in ("html", "head", "body", "div", "span", "section", "p"):
        attrs = {"id": "x"} if k in ("html", "body", "head") else {}
        return H.Tag(k, attrs, *[build(c, H) for c in x["c"]])
    if k == "text":
        return "t"
    if k == "metacs":
        return H.tags.meta(charset="latin1")
    if k == "tfyd":      # a tagifiable object whose expansion carries a dependency
        return gamma.Tfy(lambda: H.TagList(H.tags.div("e"), mk_dep("d4", H)))
    if k == "void":      # a void element that carries dependencies (they are children like any other)
        return H.tags.input(mk_dep("d3", H), mk_dep("hc", H), type="range")
    if k == "voidonly":  # ... a dependency that occurs nowhere else
        return H.tags.img(H.HTMLDependency("onvoid", "0.5", source={"href": "h://v"}, script={"src": "v.js"}), alt="a")
    if k == "tfyhead":   # a component that hands back the SAME <head> tag object every time it is asked
        cached = H.tags.head(H.tags.title("cached"), mk_dep("d2", H))
        return gamma.Tfy(lambda: cached)
    if k == "tfyt":      # ... expanding to a single tag with head_content inside
        return gamma.Tfy(lambda: H.Tag("section", "s", mk_dep("hc2", H), mk_dep("d1", H)))
    return mk_dep(k, H)


class C11(Prop):
    id = "C11"
    trace_module = "DocTrace"
    design_ref = "DESIGN.md section 3, C11"
    rule = ("document contents: every content forest up to the bound over html/head/body/div/text and four dependency "
            "kinds (same name at two versions, URL-sourced, head_content) x three html-attribute argument sets (TLC), and "
            "seeded random contents (deeper, appended later, lib_prefix None/lib/a/b and spellings a path library would normalise (./lib, lib/, a//b, ., a/./b, ../up), include_version on/off).  "
            "Non-trivial: the content has a dependency, or is a lone <html>/<body>.")
    assumptions = [
        "'tokenizes' is defined by the harness tokenizer (see C01); layout whitespace at the ends of text runs is ignored",
        "dependency definitions handed to TLC are read off the real HTMLDependency objects (name, version, source kind, "
        "file names, meta items, head markup as a tree)",
        "a dependency nested inside another dependency's head content is not generated (ambiguity A1 of DESIGN.md)",
        "script/link items carry only src / href (extra item attributes are C12/C13 territory)",
    ]

    def model_runs(self, tier):
        runs = [{"module": "Document", "cfg": f"Document_{tier}.cfg"}]
        if tier == "thorough":
            runs.append({"module": "Document", "cfg": "Document_sim.cfg", "simulate": "num=3000", "depth": 12, "export": False, "timeout": 900})
        return runs

    def nontrivial(self, rec):
        def hasdep(x):
            return x["k"] == "dep" or any(hasdep(c) for c in x["c"])
        c = rec["content"]
        return any(hasdep(x) for x in c) or (len(c) == 1 and c[0]["k"] == "tag" and c[0]["name"] in ("html", "body"))

    def gens_from_export(self, lines, tier, rnd):
        gens = []
        for i, ln in enumerate(lines):
            gens.append({"kind": "doc", "tree": ln["tree"], "args": [[a["n"], "".join(map(chr, a["v"]))] for a in ln["args"]],
                         "prefix": ["lib", None, "a/b", "./lib", "lib/", "a//b", "."][i % 7], "inclver": i % 2 == 0, "later": i % 5 == 0, "prerender": i % 10 == 0})
        return gens

    def gens_random(self, tier, rnd):
        gens = []
        kinds = ["html", "head", "body", "div", "span", "text", "d0", "d6", "d1", "d2", "d3", "d4", "d5", "d7", "d7", "hc", "hc2", "section",
                 "tfyd", "tfyt", "metacs", "void", "voidonly"]

        def node(depth):
            k = rnd.choice(kinds if depth < 4 else ["text", "d1", "d7", "d3", "hc", "d4", "tfyd", "metacs", "void", "voidonly"])
            c = []
            if k in ("html", "head", "body", "div", "span", "section"):
                c = [node(depth + 1) for _ in range(rnd.randint(0, 3))]
            return {"k": k, "c": c}
        for _ in range(600 if tier == "quick" else 12000):
            r = rnd.random()
            if r < 0.3:
                top = [{"k": "html", "c": [node(2) for _ in range(rnd.randint(0, 4))]}]
            elif r < 0.45:
                top = [{"k": "body", "c": [node(2) for _ in range(rnd.randint(0, 3))]}]
            else:
                top = [node(1) for _ in range(rnd.randint(0, 4))]
            # (falsy but present values: 0 and the empty string are attribute values like any other)
            args = rnd.choice([[], [["lang", "en"]], [["id", "y"], ["lang", "en"]], [["class", "c d"]],
                               [["data-level", 0], ["lang", ""]], [["lang", ""], ["data-n", 0.0], ["id", "z"]]])
            gens.append({"kind": "doc", "tree": {"k": "root", "c": top}, "args": args,
                         "prefix": rnd.choice(["lib", None, "a/b", "x", "./lib", "lib/", "a//b", ".", "a/./b", "../up"]), "inclver": rnd.random() < 0.5, "later": rnd.random() < 0.3,
                         "prerender": rnd.random() < 0.5, "twice": rnd.random() < 0.3,
                         "seq": rnd.choice(["", "", "", "shared_list", "failed_append", "grown_inside", "copied_doc", "dep_head_changed"])})
        leaf = lambda k: {"k": k, "c": []}
        # documents whose dependencies emit no markup at all: the listing must still name them
        for deps in (["d0"], ["d6"], ["d0", "d6"], ["d0", "d1"]):
            for top in ("html", "body", "div"):
                gens.append({"kind": "doc", "tree": {"k": "root", "c": [{"k": top, "c": [leaf("text")] + [leaf(d) for d in deps]}]},
                             "args": [], "prefix": "lib", "inclver": False, "later": False})
        # a lone <html> whose head comes out of a component that returns one cached tag object, rendered once and twice
        for twice in (False, True):
            for sibs in (["tfyhead", "body"], ["div", "tfyhead", "d1"], ["tfyhead"]):
                gens.append({"kind": "doc", "tree": {"k": "root", "c": [{"k": "html", "c": [leaf(s) for s in sibs]}]},
                             "args": [["lang", "en"]], "prefix": "lib", "inclver": True, "later": False, "twice": twice})
        # top-level dependencies next to the caller's lone <body> / <html>
        for top in ("body", "html"):
            for deps in (["d1"], ["d4", "hc"], ["d5", "d0"]):
                for where in (0, 1):
                    c = [leaf(d) for d in deps]
                    c.insert(where * len(c), {"k": top, "c": [leaf("text"), leaf("d4")]})
                    gens.append({"kind": "doc", "tree": {"k": "root", "c": c}, "args": [], "prefix": "lib", "inclver": True, "later": False})
        for headkids in (["metacs"], ["text", "metacs", "d1"], ["d3", "metacs", "hc"], ["tfyd"], ["section", "tfyt"]):
            for pos in (0, 1, 2):
                sibs = [leaf("div"), {"k": "body", "c": [leaf("text"), leaf("tfyd")]}]
                sibs.insert(min(pos, len(sibs)), {"k": "head", "c": [leaf(k) for k in headkids]})
                for top in ("html", "body", "div"):
                    gens.append({"kind": "doc", "tree": {"k": "root", "c": [{"k": top, "c": sibs if top == "html" else [leaf("tfyt"), leaf("d2")]}]},
                                 "args": [["lang", "en"]], "prefix": "lib", "inclver": True, "later": False})
        return gens

    def execute(self, g):
        import htmltools as H
        kids = [build(c, H) for c in g["tree"]["c"]]
        kw = {k: v for k, v in g["args"]}
        how = g.get("seq", "")
        if how == "shared_list" and kids:
            # two documents built from ONE TagList: what is appended to the other document (or to the list) afterwards is
            # not content of this one
            tl = H.TagList(*kids)
            doc = H.HTMLDocument(tl, **kw)
            other = H.HTMLDocument(tl)
            other.append(H.tags.div("only in the other document", mk_dep("d5", H)), mk_dep("hc2", H))
            tl.append(H.tags.p("appended to the caller's list afterwards"))
        elif how == "failed_append" and kids:
            # an append that is rejected (an unsupported object after valid items) adds nothing
            doc = H.HTMLDocument(*kids, **kw)
            try:
                doc.append(H.tags.div("must not stay", mk_dep("d5", H)), mk_dep("hc2", H), gamma.Bad())
            except TypeError:
                pass
        elif how == "copied_doc" and kids:
            # a copy of the document used next to the original: what one of them gets afterwards is not in the other
            import copy as _copy
            doc = H.HTMLDocument(*kids, **kw)
            other = _copy.copy(doc)
            other.append(H.tags.div("only in the copy", mk_dep("d5", H)), mk_dep("hc2", H))
            other.render()
        elif how == "dep_head_changed" and kids:
            # a tag that serves as a dependency's head content is changed AFTER the dependency and the document were built:
            # what is emitted is the dependency as it is when the document is rendered
            ht = H.tags.title("Draft")
            live_head = ht
            hd = H.HTMLDependency("livehead", "1.0", head=ht)
            kids = kids + [hd]
            doc = H.HTMLDocument(*kids, **kw)
            ht.attrs["data-rev"] = "2"
            ht.children.clear()
            ht.append("Final")
        elif how == "grown_inside" and kids and isinstance(kids[0], H.Tag) and kids[0].name not in ("html", "head"):
            # the document was rendered, then a tag it holds got more children through that tag's own methods
            first = kids[0]
            extra = [build({"k": "d4", "c": []}, H), "grown"]
            doc = H.HTMLDocument(*kids, **kw)
            doc.render(lib_prefix=g["prefix"], include_version=g["inclver"])
            first.append(*extra)
        elif g.get("later") and kids:
            doc = H.HTMLDocument(**kw)
            if g.get("prerender"):
                # a document object that has already been rendered (same settings) before its content arrives in two steps
                doc.append(*kids[:1])
                doc.render(lib_prefix=g["prefix"], include_version=g["inclver"])
                if kids[1:]:
                    doc.append(*kids[1:])
            else:
                doc.append(*kids)
        else:
            doc = H.HTMLDocument(*kids, **kw)
        if g.get("twice"):
            doc.render(lib_prefix=g["prefix"], include_version=g["inclver"])      # the second render is the one judged
        res = doc.render(lib_prefix=g["prefix"], include_version=g["inclver"])
        out = res["html"]
        content = abstract_all(kids, H)
        if how == "dep_head_changed" and kids:
            # the expectation comes from the caller's own tag, not from what the dependency object holds
            def patch(nodes):
                for n_ in nodes:
                    if n_["k"] == "dep" and n_["d"]["name"] == cps("livehead"):
                        n_["d"] = dict(n_["d"], head=abstract_all([live_head], H))
                    patch(n_["c"])
            patch(content)
        return {"content": content,
                "args": [{"n": k, "v": cps(str(v))} for k, v in g["args"]],
                "prefix": cps(g["prefix"] or ""), "inclver": bool(g["inclver"]),
                "events": tokenize(out), "doctypeFirst": out.startswith("<!DOCTYPE html>\n"),
                "deps": [{"name": cps(d.name), "vstr": cps(str(d.version))} for d in res["dependencies"]], "gen": g}
