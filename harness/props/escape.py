"""C02 (plain-text children are inert) and C04 (trusted markup verbatim,
escaping exactly once): drivers and projections.  Verdicts come from
spec/trace/EscapeTrace.tla."""
from __future__ import annotations

import random

from ..core import Prop, cps, uncps
from .. import gamma

MARK = "\ue000"


def _lib():
    import htmltools
    return htmltools


# ---------------------------------------------------------------------------
# shapes: every way of placing one leaf `x` into a tree; returns the string
# ---------------------------------------------------------------------------
def _shapes():
    H = _lib()
    Tag, TagList, tags = H.Tag, H.TagList, H.tags

    def ap(x):
        t = tags.div()
        t.append(x)
        return t.get_html_string()

    def ap2(x):
        t = tags.div(tags.span("k"))
        t.append("a", x)
        return t.get_html_string()

    def ext(x):
        t = tags.span()
        t.extend([tags.b(), [x]])
        return t.get_html_string()

    def ins(x):
        t = tags.div(tags.span(), "z")
        t.insert(0, x)
        return t.get_html_string()

    def ins_mid(x):
        t = TagList(tags.div(), tags.span())
        t.insert(1, x)
        return t.get_html_string()

    def iadd(x):
        t = TagList(tags.div())
        t += [x]
        return t.get_html_string()

    # one-shot iterables: extend() and += accept any iterable of children
    def ext_iter(x):
        t = tags.div()
        t.extend(iter([tags.b(), x]))
        return t.get_html_string()

    def ext_gen(x):
        t = tags.span("k")
        t.extend(y for y in [x])
        return t.get_html_string()

    def iadd_gen(x):
        t = TagList(tags.div())
        t += (y for y in ["a", [x]])
        return t.get_html_string()

    def lext_map(x):
        t = TagList()
        t.extend(map(lambda y: y, [x, tags.i()]))
        return t.get_html_string()

    def renamed(x):
        # Tag.name is a public, assignable attribute: what is escaped follows the CURRENT name
        t = Tag("script", x)
        t.name = "pre"
        return t.get_html_string()

    def renamed_late(x):
        t = Tag("style", "k")
        t.name = "code"
        t.append(x)
        return str(t)

    def saved(x):
        import os
        import tempfile
        d = tempfile.mkdtemp(prefix="verif-c02-")
        try:
            p = tags.div(tags.p("k"), x).save_html(os.path.join(d, "f.html"))
            with open(p, encoding="utf-8", newline="") as fh:
                return fh.read()
        finally:
            import shutil
            shutil.rmtree(d, ignore_errors=True)

    def ins_all_html(x):
        # a child list that held only HTML() nodes until now
        t = tags.div(H.HTML("<hr>"), H.HTML("<br>"))
        t.get_html_string()
        t.insert(1, x)
        return t.get_html_string()

    def ins_all_html_nested(x):
        t = tags.section(tags.p(H.HTML("<i>k</i>")))
        str(t)
        t.children[0].children.insert(0, x)
        t.children[0].append(H.HTML("<b>z</b>"))
        return str(t)

    def iadd_alias(x):
        # += extends in place: through a second name for the tag's child list
        t = tags.div("a")
        kids = t.children
        kids += [tags.b(), x]
        return t.get_html_string()

    def iadd_helper(x):
        def add(children):
            children += [x]
        t = tags.ul(tags.li("k"))
        add(t.children)
        t.append("tail")
        return str(t)

    def rerender_after_add(x):
        t = tags.div(tags.span("k"))
        t.get_html_string()
        str(t)
        t.append(x)
        return t.get_html_string()

    def ap_after_html(x):
        t = tags.div(H.HTML("<hr/>"))
        t.append(x)
        return t.get_html_string()

    def ext_after_html(x):
        t = TagList(tags.b(), H.HTML("<i>k</i>"))
        t.extend([x, "z"])
        return t.get_html_string()

    def iadd_after_html(x):
        t = TagList(H.HTML("&amp;"))
        t += [x]
        return t.get_html_string()

    def ins_after_html(x):
        t = tags.p(H.HTML("<hr/>"), H.HTML("<br/>"))
        t.insert(1, x)
        return t.get_html_string()

    return {
        "only_block": lambda x: tags.div(x).get_html_string(),
        "only_inline": lambda x: tags.span(x).get_html_string(),
        "only_indented": lambda x: tags.div(x).get_html_string(3, "\r\n"),
        "first_of_two": lambda x: tags.div(x, tags.span()).get_html_string(),
        "second_after_inline": lambda x: tags.div(tags.span(), x).get_html_string(),
        "after_block": lambda x: tags.div(tags.div(), x).get_html_string(),
        "before_block": lambda x: tags.div(x, tags.p()).get_html_string(),
        "between_text": lambda x: tags.p("a", x, "b").get_html_string(),
        "after_text_indent": lambda x: tags.div(tags.div("a", x)).get_html_string(2),
        "taglist_only": lambda x: TagList(x).get_html_string(),
        "taglist_second": lambda x: TagList(tags.span(), x).get_html_string(),
        "taglist_after_block": lambda x: TagList(tags.div(), x).get_html_string(1),
        "nested_lists": lambda x: tags.div([["y", [x]], None], (tags.i(),)).get_html_string(),
        "in_taglist_arg": lambda x: tags.div(TagList("q", TagList(x))).get_html_string(),
        "deep": lambda x: tags.div(tags.ul(tags.li(tags.a(tags.b(x), "t")))).get_html_string(),
        "append": ap, "append_many": ap2, "extend": ext, "insert0": ins, "insert_mid": ins_mid, "iadd": iadd,
        # ordinary elements nested inside raw-text elements are still ordinary elements
        "script_grandchild": lambda x: tags.script(tags.div(x), type="text/template").get_html_string(),
        "style_grandchild": lambda x: tags.div(tags.style("a{}", tags.span("k", x))).get_html_string(),
        "renamed_from_script": renamed, "renamed_then_append": renamed_late, "saved_file": saved,
        "insert_into_all_html": ins_all_html, "insert_into_all_html_nested": ins_all_html_nested,
        "iadd_alias": iadd_alias, "iadd_helper": iadd_helper, "rerender_after_add": rerender_after_add,
        "append_after_html": ap_after_html, "extend_after_html": ext_after_html, "iadd_after_html": iadd_after_html,
        "insert_between_html": ins_after_html,
        "extend_iter": ext_iter, "extend_gen": ext_gen, "iadd_gen": iadd_gen, "list_extend_map": lext_map,
        "radd": lambda x: ([x] + TagList(tags.span())).get_html_string(),
        "add": lambda x: (TagList(tags.div()) + [x]).get_html_string(),
        "str_view": lambda x: str(tags.div(tags.div(), x)),
        "render_view": lambda x: tags.div(x, tags.br()).render()["html"],
        "tagify_str": lambda x: tags.div(gamma.Tfy(lambda: x)).render()["html"],
        "tagify_list": lambda x: tags.div("a", gamma.Tfy(lambda: TagList(tags.span(), x))).render()["html"],
        "tagify_tag": lambda x: TagList(gamma.Tfy(lambda: tags.p(x, "b"))).render()["html"],
        "doc_body": lambda x: H.HTMLDocument(tags.div(x)).render()["html"],
        "void_with_child": lambda x: Tag("br", x).get_html_string(),
        "custom_name": lambda x: Tag("my-el", tags.span(), x, _add_ws=False).get_html_string(),
    }


_SH = None


def shapes():
    global _SH
    if _SH is None:
        _SH = _shapes()
    return _SH


def segment(render, x_marker, x_real):
    """Cut out what the library emitted for the leaf: render once with a marker
    leaf of the same type to learn the context, once with the real leaf."""
    # str(): a changed library may hand back a str-like object; what matters is the text it denotes
    m = str(render(x_marker))
    if m.count(MARK) == 0:
        return LOST
    if m.count(MARK) != 1:
        return None
    pre, suf = m.split(MARK)
    out = str(render(x_real))
    if not (out.startswith(pre) and out.endswith(suf) and len(out) >= len(pre) + len(suf)):
        return None
    return out[len(pre): len(out) - len(suf)]


LOST = object()      # the marker leaf was not emitted at all


class Label(str):
    """a plain string whose type is a proper subclass of str (a (str, Enum) member, numpy.str_, ...)"""


def seg_rec(p, ctx, pieces, seg, gen):
    return {"k": "seg", "p": p, "ctx": ctx, "pieces": [{"m": m, "t": cps(t)} for m, t in pieces],
            "seg": cps(seg), "gen": gen}


def seg_or_flag(p, ctx, pieces, seg, gen):
    if seg is LOST:
        return flag(p, "EveryLeafIsEmitted", True, False, gen)
    if seg is None:
        return flag("DRIFT", "context", True, False, gen)
    return seg_rec(p, ctx, pieces, seg, gen)


def flag(p, name, want, got, gen):
    return {"k": "flag", "p": p, "name": name, "want": bool(want), "got": bool(got), "gen": gen}


def cp_ranges(p, ctx, fn, lo, hi, gen):
    """Apply fn to chr(c) for lo <= c <= hi; identical results are merged into
    identity ranges, everything else is recorded verbatim."""
    recs = []
    start = None
    for c in range(lo, hi + 1):
        ch = chr(c)
        out = fn(ch)
        if out == ch:
            if start is None:
                start = c
        else:
            if start is not None:
                recs.append({"k": "range", "p": p, "ctx": ctx, "lo": start, "hi": c - 1, "gen": gen})
                start = None
            recs.append(seg_rec(p, ctx, [("esc", ch)], out, dict(gen, cp=c)))
    if start is not None:
        recs.append({"k": "range", "p": p, "ctx": ctx, "lo": start, "hi": hi, "gen": gen})
    return recs


class HostileInt(int):
    """a number whose str() text contains markup metacharacters (e.g. an IntEnum member with a label)"""
    def __str__(self):
        return "<R&D #%d>" % int(self)
    __repr__ = lambda self: "HostileInt(%d)" % int(self)


class HostileFloat(float):
    def __str__(self):
        return "1 < 2 & 3 > %s" % float.__repr__(self)
    __repr__ = lambda self: "HostileFloat(%s)" % float.__repr__(self)


# ---------------------------------------------------------------------------
class C02(Prop):
    observed_from_suite = ["EscapeTrace"]
    id = "C02"
    trace_module = "EscapeTrace"
    design_ref = "DESIGN.md section 3, C02"
    rule = ("strings: every string over the 11-symbol metacharacter alphabet up to the bound (TLC-enumerated), "
            "each through html_escape and through every child-placement shape; every Unicode code point; "
            "seeded random strings; catalogue sweep.  A record is non-trivial when its payload contains a "
            "character that must be escaped; distinct = distinct (payload, emitted segment, context) records.")
    assumptions = [
        "the emitted segment of a leaf is located by rendering the same tree with a one-character private-use marker leaf",
        "numbers are defined by their str() text (as the statement says)",
        "surrogate code points are exercised but are not Unicode scalar values; they can only produce identity ranges",
    ]

    def model_runs(self, tier):
        return [{"module": "Escape", "cfg": f"Escape_{tier}.cfg", "export": False},
                {"module": "Escape", "cfg": f"Escape_{tier}_gen.cfg"}]

    def nontrivial(self, rec):
        if rec.get("k") == "seg":
            return any(c in (38, 60, 62) for p in rec["pieces"] for c in p["t"])
        return rec.get("k") == "range"

    def gens_from_export(self, lines, tier, rnd):
        gens = []
        names = list(shapes())
        maxtree = 3 if tier == "quick" else 4
        for i, ln in enumerate(lines):
            if ln["attr"]:
                continue
            gens.append({"kind": "fn", "s": ln["s"], "model": ln["out"]})
            if len(ln["s"]) <= maxtree:
                # every string through several shapes, rotating so that all shapes see all short strings
                k = 6 if tier == "quick" else len(names)
                for j in range(k):
                    gens.append({"kind": "child", "s": ln["s"], "shape": names[(i * 7 + j) % len(names)]})
        return gens

    def gens_random(self, tier, rnd):
        gens = []
        names = list(shapes())
        n = 1500 if tier == "quick" else 30000
        for _ in range(n):
            s = gamma.rand_text(rnd, rnd.choice([3, 10, 60, 200]))
            gens.append({"kind": "fn", "s": cps(s)})
            gens.append({"kind": "child", "s": cps(s), "shape": rnd.choice(names)})
        for s in gamma.HOSTILE:
            for nm in names:
                gens.append({"kind": "child", "s": cps(s), "shape": nm})
        # plain strings whose type is a proper subclass of str
        for j, s in enumerate(gamma.HOSTILE):
            for nm in (names if j < 6 else [names[j % len(names)], "only_block", "only_inline"]):
                gens.append({"kind": "child", "s": cps(s), "shape": nm, "sub": True})
        # history dependence: the same string escaped as an attribute value first, then as text
        for j, s in enumerate(gamma.HOSTILE + ["Tom & \"Jerry\"", "a<b 'c'", "x & y\nz"]):
            gens.append({"kind": "fn", "s": cps("p" + str(j) + s), "prime": True})
            gens.append({"kind": "child", "s": cps("q" + str(j) + s), "shape": names[j % len(names)], "prime": True})
        for _ in range(200 if tier == "quick" else 4000):
            s = gamma.rand_text(rnd, rnd.choice([6, 20, 60]))
            gens.append({"kind": rnd.choice(["fn", "child"]), "s": cps(s), "shape": rnd.choice(names), "prime": True})
        for s in gamma.LONG_HOSTILE:
            for nm in ("only_block", "second_after_inline", "after_block", "append", "nested_lists", "tagify_list"):
                gens.append({"kind": "child", "s": cps(s), "shape": nm, "prime": True})
            gens.append({"kind": "fn", "s": cps(s), "prime": True})
            gens.append({"kind": "child", "s": cps(s), "shape": "only_block"})          # un-primed twin (C18's history check)
        srcs = ["str_tag", "repr_tag", "repr_html", "html_escape", "html_escape_attr", "child_read_back", "script_child_read_back",
                "style_children_list", "attr_read_back"]
        for j, s in enumerate(gamma.HOSTILE[:24] + ["a<b & c", "<img src=x onerror=alert(1)>"]):
            for src in srcs:
                for nm in ("only_block", "second_after_inline", "between_text", "append", "taglist_second", "nested_lists"):
                    if (j + len(src) + len(nm)) % 3 == 0 or j >= 24:
                        gens.append({"kind": "roundtrip", "s": cps(s), "src": src, "shape": nm})
        for n_ in [HostileInt(3), HostileFloat(2.5)]:
            for nm in ("only_block", "only_inline", "second_after_inline", "append", "nested_lists", "insert0", "extend"):
                gens.append({"kind": "num", "n": repr(n_), "shape": nm})
        for n_ in [0, 1, -1, 7, 10 ** 20, 2.5, -0.0, 1e-7, 1e22, float("inf"), True, False]:
            for nm in ("only_block", "second_after_inline", "append", "nested_lists", "insert0"):
                gens.append({"kind": "num", "n": repr(n_), "shape": nm})
        # every code point
        step = 0x1000
        for lo in range(0, 0x110000, step):
            gens.append({"kind": "cprange", "lo": lo, "hi": lo + step - 1, "path": "fn"})
        if tier == "quick":
            blocks = sorted({0, 1, 2, 0xD, 0xF, 0x10, 0x1F, 0x10F} | {rnd.randrange(0x110) for _ in range(8)})
        else:
            blocks = range(0x110)
        for b in blocks:
            for path in ("only", "second"):
                gens.append({"kind": "cprange", "lo": b * step, "hi": b * step + step - 1, "path": path})
        # catalogue sweep: every tag function, both whitespace flags, three positions, short and long payloads
        cat = gamma.catalogue()
        payloads = ["<a&b>", "x" * 45 + "<&>" + "y" * 60]
        for mod in ("tags", "svg"):
            for nm in cat[mod]:
                if nm in ("script", "style"):
                    continue
                for ws in (None, True, False):
                    for pos in (0, 1, 2):
                        gens.append({"kind": "sweep", "mod": mod, "tag": nm, "ws": ws, "pos": pos,
                                     "s": cps(payloads[(pos + (ws is None)) % 2])})
        return gens

    def execute(self, g):
        H = _lib()
        k = g["kind"]
        if g.get("prime") and "s" in g:
            # history dependence: the same text is first escaped for the OTHER context in this process,
            # and first rendered as trusted markup (a cache must not confuse HTML(s) with the plain string s)
            H.html_escape(uncps(g["s"]), attr=True)
            H.Tag("i", title=uncps(g["s"])).get_html_string()
            H.tags.div(H.HTML(uncps(g["s"]))).get_html_string()
            H.tags.div(H.HTML(uncps(g["s"])), "t").get_html_string()
        if k == "fn":
            s = uncps(g["s"])
            out = H.html_escape(s)
            recs = [seg_rec("C02", "text", [("esc", s)], out, g)]
            if "model" in g:
                recs.append({"k": "model", "ctx": "text", "s": g["s"], "out": cps(out), "gen": g})
            return recs
        if k == "child":
            s = uncps(g["s"])
            if g.get("sub"):
                seg = segment(shapes()[g["shape"]], Label(MARK), Label(s))
            else:
                seg = segment(shapes()[g["shape"]], MARK, s)
            return seg_or_flag("C02", "text", [("esc", s)], seg, g)
        if k == "roundtrip":
            # a plain string that CAME OUT of the library (the markup of a tag as text, an escaped string, a child or an
            # attribute value read back) and is handed in again as a child: it is a plain string like any other
            s = uncps(g["s"])
            src = g["src"]
            if src == "str_tag":
                p_obj = str(H.tags.span(s))
            elif src == "repr_tag":
                p_obj = repr(H.tags.b(s, id="r"))
            elif src == "repr_html":
                p_obj = H.TagList(H.tags.i(s), "t")._repr_html_()
            elif src == "html_escape":
                p_obj = H.html_escape(s)
            elif src == "html_escape_attr":
                p_obj = H.html_escape(s, attr=True)
            elif src == "child_read_back":
                p_obj = H.tags.div(s).children[0]
            elif src == "script_child_read_back":
                p_obj = H.tags.script(s).children[0]
            elif src == "style_children_list":
                p_obj = None
            elif src == "attr_read_back":
                p_obj = H.tags.div(title=s).attrs["title"]
            else:
                raise ValueError(src)
            if src == "style_children_list":
                holder = H.tags.style(s)
                out = H.tags.pre("k", H.tags.code(holder.children)).get_html_string()
                pre, suf = "<pre>k<code>", "</code></pre>"
                text = s
            else:
                if type(p_obj) is not str and not isinstance(p_obj, str):
                    return flag("DRIFT", "context", True, False, g)
                text = str.__str__(p_obj) if isinstance(p_obj, str) else str(p_obj)
                out = shapes()[g["shape"]](p_obj)
                m = shapes()[g["shape"]](MARK)
                if m.count(MARK) != 1:
                    return flag("DRIFT", "context", True, False, g)
                pre, suf = m.split(MARK)
            if not (out.startswith(pre) and out.endswith(suf) and len(out) >= len(pre) + len(suf)):
                return flag("C02", "EveryLeafIsEmitted", True, False, g)
            return seg_rec("C02", "text", [("esc", text)], out[len(pre): len(out) - len(suf)], g)
        if k == "num":
            n = eval(g["n"], {"inf": float("inf"), "HostileInt": HostileInt, "HostileFloat": HostileFloat})
            sh = shapes()[g["shape"]]
            m = sh(MARK)
            pre, suf = m.split(MARK)
            out = sh(n)
            if not (out.startswith(pre) and out.endswith(suf)):
                return flag("DRIFT", "context", True, False, g)
            return seg_rec("C02", "text", [("esc", str(n))], out[len(pre): len(out) - len(suf)], g)
        if k == "cprange":
            div, TagList = H.tags.div, H.TagList
            if g["path"] == "fn":
                fn = H.html_escape
            elif g["path"] == "only":
                fn = lambda ch: div(ch).get_html_string()[5:-6]
            else:
                fn = lambda ch: TagList("a", ch).get_html_string()[1:]
            return cp_ranges("C02", "text", fn, g["lo"], g["hi"], g)
        if k == "sweep":
            f = gamma.catalogue()[g["mod"]][g["tag"]]
            kw = {} if g["ws"] is None else {"_add_ws": g["ws"]}
            s = uncps(g["s"])
            if g["pos"] == 0:
                r = lambda x: f(x, **kw).get_html_string()
            elif g["pos"] == 1:
                r = lambda x: f(x, H.tags.span("k"), **kw).get_html_string()
            else:
                r = lambda x: f(H.tags.em("k"), x, **kw).get_html_string()
            seg = segment(r, MARK, s)
            return seg_or_flag("C02", "text", [("esc", s)], seg, g)
        raise ValueError(k)


# ---------------------------------------------------------------------------
def _build_expr(e, payloads, H):
    """Evaluate an abstract expression with the real operators."""
    if e["op"] == "S":
        return payloads[e["i"] - 1]
    if e["op"] == "H":
        return H.HTML(payloads[e["i"] - 1])
    if e["op"] == "O":
        class Obj:
            def __init__(self, s): self.s = s
            def __str__(self): return self.s
        return Obj(payloads[e["i"] - 1])
    l = _build_expr(e["l"], payloads, H)
    r = _build_expr(e["r"], payloads, H)
    if e.get("aug"):
        l += r
        return l
    return l + r


def _leaves(e):
    if e["op"] != "add":
        return [e]
    return _leaves(e["l"]) + _leaves(e["r"])


def _strip_aug(e):
    if e["op"] != "add":
        return {"op": e["op"], "i": e["i"]}
    return {"op": "add", "l": _strip_aug(e["l"]), "r": _strip_aug(e["r"])}


class C04(Prop):
    id = "C04"
    trace_module = "EscapeTrace"
    design_ref = "DESIGN.md section 3, C04"
    rule = ("trusted leaves (HTML(), _repr_html_, script/style text, HTML() attribute values) in every placement shape "
            "with hostile markup; every HTML()/str expression tree up to the bound (TLC-enumerated) and seeded random "
            "chains.  Non-trivial: the payload contains a character that escaping would change (so verbatim vs escaped "
            "is observable) or the expression mixes plain and HTML() operands.")
    assumptions = [
        "the emitted segment of a leaf is located by rendering the same tree with a marker leaf of the same type",
        "operands of kind O are objects with __str__ and no __add__ (so HTML.__radd__/__add__ decide)",
    ]

    def model_runs(self, tier):
        return [{"module": "HtmlStr", "cfg": f"HtmlStr_{tier}.cfg"}]

    def nontrivial(self, rec):
        if rec.get("k") == "seg":
            return any(c in (38, 60, 62, 34, 39, 10, 13) for p in rec["pieces"] for c in p["t"])
        if rec.get("k") == "expr":
            ops = {l["op"] for l in _leaves(rec["e"])}
            return len(ops) > 1
        return True

    def gens_from_export(self, lines, tier, rnd):
        gens = []
        for i, ln in enumerate(lines):
            for rep in range(2 if tier == "quick" else 4):
                n = len(_leaves(ln["e"]))
                payloads = [rnd.choice(gamma.HOSTILE) if rnd.random() < 0.8 else gamma.rand_text(rnd, 12)
                            for _ in range(n)]
                gens.append({"kind": "expr", "e": ln["e"], "payloads": [cps(p) for p in payloads],
                             "aug": rnd.getrandbits(8), "model_html": ln["html"]})
        return gens

    def _rand_expr(self, rnd, n, start=1):
        if n == 1:
            return {"op": rnd.choice("SSHHO"), "i": start}
        m = rnd.randint(1, n - 1)
        return {"op": "add", "l": self._rand_expr(rnd, m, start), "r": self._rand_expr(rnd, n - m, start + m)}

    def gens_random(self, tier, rnd):
        gens = []
        names = [n for n in shapes() if n not in ("tagify_str",)]
        payloads = list(gamma.HOSTILE) + ["<b>bold</b> &amp; <i>it</i>\n<p>x</p>", "a < b && c > d", "\r\n\t <x y='z'>",
                                          # backslashes (JS string escapes, regular expressions, Windows paths, template groups)
                                          "var s = 'a\\nb'; /\\d+\\1/", "C:\\dir\\new", "\\g<0> \\1 \\\\"]
        for p in payloads:
            gens.append({"kind": "html_child", "s": cps(p), "shape": "tagify_str"})    # tagify() handing back a bare HTML()
            for nm in names:
                gens.append({"kind": "html_child", "s": cps(p), "shape": nm})
                gens.append({"kind": "repr_child", "s": cps(p), "shape": nm})
            for tagname in ("script", "style"):
                for form in ("only", "first", "second", "third", "indented", "with_meta", "renamed", "renamed_after_render", "saved"):
                    gens.append({"kind": "rawtext", "tag": tagname, "form": form, "s": cps(p)})
            for way in ("kw", "dict", "setitem", "update", "second_attr", "class_then_add", "class_then_add_pre", "style_then_add",
                        "class_then_remove", "cons"):
                gens.append({"kind": "html_attr", "s": cps(p), "way": way})
            for way in ("doc", "textdoc", "as_html_tags", "textdoc_json", "textdoc_jsonmode"):
                gens.append({"kind": "dep_head", "s": cps(p), "way": way})
        for p in gamma.LONG_HOSTILE:
            for nm in ("only_block", "only_inline", "second_after_inline", "after_block", "taglist_only"):
                gens.append({"kind": "html_child", "s": cps(p), "shape": nm, "prime": True})
            gens.append({"kind": "html_attr", "s": cps(p), "way": "kw", "prime": True})
            gens.append({"kind": "html_child", "s": cps(p), "shape": "only_block"})     # un-primed twin (C18's history check)
        cat = gamma.catalogue()
        for mod in ("tags", "svg"):
            for j, nm in enumerate(cat[mod]):
                if nm in ("script", "style"):
                    continue
                gens.append({"kind": "concat_in", "mod": mod, "tag": nm, "a": cps("<b>"), "b": cps("a<b & c"), "order": j % 2,
                             "escaped_operand": j % 3 == 0})
        n = 400 if tier == "quick" else 8000
        for _ in range(n):
            p = gamma.rand_text(rnd, rnd.choice([5, 30, 120]))
            gens.append({"kind": rnd.choice(["html_child", "repr_child"]), "s": cps(p), "shape": rnd.choice(names)})
            gens.append({"kind": "html_attr", "s": cps(p), "way": rnd.choice(["kw", "dict", "setitem", "update"])})
            gens.append({"kind": "rawtext", "tag": rnd.choice(["script", "style"]),
                         "form": rnd.choice(["only", "first", "second", "third", "indented", "with_meta", "renamed"]), "s": cps(p)})
        for _ in range(300 if tier == "quick" else 6000):
            k = rnd.randint(2, 12)
            e = self._rand_expr(rnd, k)
            ev_ok = True
            gens.append({"kind": "expr", "e": e,
                         "payloads": [cps(rnd.choice(payloads + ["", ""]) if rnd.random() < 0.7 else gamma.rand_text(rnd, 10))
                                      for _ in range(k)], "aug": rnd.getrandbits(16)})
        return gens

    def execute(self, g):
        H = _lib()
        k = g["kind"]
        s = uncps(g["s"]) if "s" in g else None
        if g.get("prime") and s is not None:
            # history dependence: the same characters were first rendered as a PLAIN string in this process
            H.tags.div(s).get_html_string()
            H.tags.div("t", s).get_html_string()
            H.html_escape(s)
        if k == "concat_in":
            f = gamma.catalogue()[g["mod"]][g["tag"]]
            a, b = uncps(g["a"]), uncps(g["b"])
            if g.get("escaped_operand"):
                # the plain operand is itself the result of html_escape(): still a plain string, escaped once more
                if g["order"] == 0:
                    b = H.html_escape(b)
                else:
                    a = H.html_escape(a)
            res = H.HTML(a) + b if g["order"] == 0 else a + H.HTML(b)
            a_obj, b_obj = a, b          # the operands as they are (a string that came out of html_escape() included)
            a, b = str.__str__(a) if isinstance(a, str) else a, str.__str__(b) if isinstance(b, str) else b
            pieces = [("raw", a), ("esc", b)] if g["order"] == 0 else [("esc", a), ("raw", b)]
            seg = segment(lambda x: f(x), H.HTML(MARK), res)
            seg2 = segment(lambda x: f("k", x), H.HTML(MARK), res)
            # compared without layout whitespace (a block tag puts one text child on one line, two children on three)
            adj = f(H.HTML(a), b_obj, _add_ws=False) if g["order"] == 0 else f(a_obj, H.HTML(b), _add_ws=False)
            recs = []
            for sg in (seg, seg2):
                recs.append(seg_or_flag("C04", "text", pieces, sg, g))
            recs.append(flag("C04", "SameAsAdjacentChildren", True, str(f(res, _add_ws=False).get_html_string()) == str(adj.get_html_string()), g))
            return recs
        if k == "html_child":
            sh = shapes()[g["shape"]]
            seg = segment(sh, H.HTML(MARK), H.HTML(s))
            return seg_or_flag("C04", "text", [("raw", s)], seg, g)
        if k == "repr_child":
            sh = shapes()[g["shape"]]
            try:
                seg = segment(sh, gamma.ReprObj(MARK), gamma.ReprObj(s))
            except TypeError:
                return None
            return seg_or_flag("C04", "text", [("raw", s)], seg, g)
        if k == "rawtext":
            Tag = H.Tag
            form = g["form"]

            def r(x):
                if form == "only":
                    return Tag(g["tag"], x).get_html_string()
                if form == "first":
                    return Tag(g["tag"], x, "b").get_html_string()
                if form == "second":
                    return Tag(g["tag"], "a", x).get_html_string()
                if form == "third":
                    return Tag(g["tag"], "a", H.HTML("b"), x, "c", _add_ws=False).get_html_string()
                if form == "indented":
                    return H.tags.div(Tag(g["tag"], x)).get_html_string(2, "\r\n")
                if form == "renamed":
                    t = Tag("div", x)
                    t.name = g["tag"]
                    return t.get_html_string()
                if form == "renamed_after_render":
                    t = Tag("div", x)
                    t.get_html_string()        # a preview while it still was an ordinary element
                    str(t)
                    t.name = g["tag"]
                    return t.get_html_string()
                if form == "saved":
                    import os
                    import shutil
                    import tempfile
                    d = tempfile.mkdtemp(prefix="verif-c04-")
                    try:
                        p = H.tags.div(Tag(g["tag"], x)).save_html(os.path.join(d, "f.html"))
                        with open(p, encoding="utf-8", newline="") as fh:
                            return fh.read()
                    finally:
                        shutil.rmtree(d, ignore_errors=True)
                return Tag(g["tag"], H.MetadataNode(), x, H.MetadataNode()).get_html_string()
            seg = segment(r, MARK, s)
            return seg_or_flag("C04", "text", [("raw", s)], seg, g)
        if k == "html_attr":
            way = g["way"]

            def r(x):
                if way == "kw":
                    t = H.tags.div(a=x)
                elif way == "dict":
                    t = H.tags.div({"a": x}, "child")
                elif way == "setitem":
                    t = H.tags.div()
                    t.attrs["a"] = x
                elif way == "update":
                    t = H.tags.div(a="old")
                    t.attrs.update({"a": x})
                elif way == "class_then_add":
                    # a trusted class / style value stays verbatim when the helpers add a plain value next to it
                    t = H.tags.div(class_=x)
                    t.add_class("plain")
                elif way == "class_then_add_pre":
                    t = H.tags.div(class_=x)
                    t.add_class("plain", prepend=True)
                elif way == "class_then_remove":
                    t = H.tags.div(class_=x)
                    t.remove_class("not-there-at-all")
                elif way == "style_then_add":
                    t = H.tags.div(style=x)
                    t.add_style("k:v;")
                elif way == "cons":
                    attrs, _ = H.consolidate_attrs({"a": x}, "child")
                    t = H.tags.div(attrs)
                else:
                    t = H.tags.div(b="1", a=x, c="2")
                return t.get_html_string()
            if way in ("class_then_add", "class_then_add_pre", "class_then_remove") and (not s.strip() or len(s.split()) != 1 or s != s.strip()):
                # the class helpers work on whitespace-separated tokens: C16's business, not "verbatim"
                return None
            seg = segment(r, H.HTML(MARK), H.HTML(s))
            return seg_or_flag("C04", "attr", [("raw", s)], seg, g)
        if k == "dep_head":
            # trusted markup carried by a dependency's head, on the rendering paths that hoist it
            way = g["way"]
            PHX = "<meta name=\"deps-here\">"

            def r(x):
                d = H.HTMLDependency("dh", "1.0", head=x)
                if way == "doc":
                    return H.HTMLDocument(H.tags.div("c", d)).render()["html"]
                if way == "textdoc":
                    return H.HTMLTextDocument("<html><head>" + PHX + "</head><body>b</body></html>", deps=[d],
                                              deps_replace_pattern=PHX).render()["html"]
                if way == "textdoc_json":
                    # serialised into the text, then collected again by HTMLTextDocument
                    body = d.serialize_to_script_json().get_html_string()
                    return H.HTMLTextDocument("<html><head>" + PHX + "</head><body>" + body + "</body></html>",
                                              deps_replace_pattern=PHX).render()["html"]
                if way == "textdoc_jsonmode":
                    old = H.html_dependency_render_mode
                    try:
                        H.html_dependency_render_mode = "json"
                        body = str(H.tags.div("c", d))
                    finally:
                        H.html_dependency_render_mode = old
                    return H.HTMLTextDocument("<html><head>" + PHX + "</head><body>" + body + "</body></html>",
                                              deps_replace_pattern=PHX).render()["html"]
                return d.as_html_tags().get_html_string()
            try:
                seg = segment(r, H.HTML(MARK), H.HTML(s))
            except Exception as ex:  # noqa: rendering trusted markup must not fail because of what it contains
                return flag("C04", "TrustedMarkupRendersOnEveryPath", True, False, g)
            return seg_or_flag("C04", "text", [("raw", s)], seg, g)
        if k == "expr":
            payloads = [uncps(p) for p in g["payloads"]]
            e = g["e"]
            # decorate nodes with the += choice (same dispatch, then rebinding)
            bits = g.get("aug", 0)

            def deco(x, depth=[0]):
                if x["op"] != "add":
                    return dict(x)
                depth[0] += 1
                a = (bits >> (depth[0] % 16)) & 1
                return {"op": "add", "l": deco(x["l"]), "r": deco(x["r"]), "aug": bool(a)}
            de = deco(e)
            try:
                res = _build_expr(de, payloads, H)
            except TypeError:
                # str + object: not a valid sequence of operations (the model says ok = FALSE)
                return None
            is_html = isinstance(res, H.HTML)
            if not isinstance(res, (str, H.HTML)):
                return None
            out = H.tags.span(res).get_html_string()
            seg = out[len("<span>"): -len("</span>")]
            ops = []
            for lf in _leaves(e):
                p = payloads[lf["i"] - 1]
                ops.append(H.HTML(p) if lf["op"] == "H" else p)
            out2 = H.tags.span(*ops).get_html_string()
            return {"k": "expr", "e": _strip_aug(e), "payloads": g["payloads"], "isHtml": is_html,
                    "seg": cps(seg), "same": out == out2, "gen": g}
        raise ValueError(k)
