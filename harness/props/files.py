"""C12: dependency URLs and copied files agree.  Real scratch directories;
spec/trace/FilesTrace.tla judges the before/after directory projections and
the URLs read back from the written file."""
from __future__ import annotations

import hashlib
import os
import shutil
import sys
import tempfile

from ..core import Prop
from .parse import tokenize

HOSTILE_NAMES = ["a b.js", "c%23.css", "d#e.js", "q?x=1.js", "amp&.css", "quo\"te.js", "it's.css", "é.js", "日本.css",
                 ".hidden.js", "plus+.js", "semi;colon.css", "eq=.js", "tilde~.js", "UPPER.JS", "sp  ace.css",
                 "per%cent.js", "%41.js", "a.b.c.js", "brace{}.css", "[x].js", "at@.css", "comma,.js", "back\\slash.js"]
DIRS = ["", "sub/", "d e/", "a%/b/", "ü/"]


def b(s: str):
    return list(os.fsencode(s))


def project(root):
    out = []
    if not os.path.isdir(root):
        return out
    for dp, dn, fn in os.walk(root):
        for f in fn:
            p = os.path.join(dp, f)
            rel = os.path.relpath(p, root)
            with open(p, "rb") as fh:
                out.append({"p": b(rel.replace(os.sep, "/")), "h": hashlib.sha256(fh.read()).hexdigest()[:16]})
    return sorted(out, key=lambda x: x["p"])


_pkg_n = [0]


def run_case(g, H):
    import random
    rnd = random.Random(g.get("seed", 0))
    tmp = tempfile.mkdtemp(prefix="verif-c12-")
    added_path = None
    try:
        deps, recs = [], []
        late = []
        for di, d in enumerate(g["deps"]):
            srcdir = os.path.join(tmp, f"src{di}")
            source = None
            if d["src"] == "package":
                _pkg_n[0] += 1
                pkg = f"vpkg_{os.getpid()}_{_pkg_n[0]}"
                os.makedirs(os.path.join(tmp, pkg))
                open(os.path.join(tmp, pkg, "__init__.py"), "w").close()
                srcdir = os.path.join(tmp, pkg, "assets")
                if tmp not in sys.path:
                    sys.path.insert(0, tmp)
                    added_path = tmp
                source = {"package": pkg, "subdir": "assets"}
            elif d["src"] == "dir":
                source = {"subdir": srcdir}
            elif d["src"] == "url":
                source = {"href": d["href"]}
            if d["src"] in ("dir", "package"):
                os.makedirs(srcdir, exist_ok=True)
                for f in d["present"]:
                    p = os.path.join(srcdir, f)
                    os.makedirs(os.path.dirname(p), exist_ok=True)
                    with open(p, "wb") as fh:
                        fh.write(f"content of {f} #{rnd.random()}".encode())
            links = [f for f in d["links"]]
            scripts = [f for f in d["scripts"]]
            seq = g.get("seq", "")
            held_back = None
            if seq == "append_after" and len(scripts) >= 2:
                held_back = scripts[-1]          # this script joins the dependency only after a first save
            dep = H.HTMLDependency(d["name"], d["version"], source=source,
                                   script=[{"src": f} for f in (scripts[:-1] if held_back else scripts)],
                                   stylesheet=[{"href": f} for f in links], all_files=d["allfiles"],
                                   # (head content travels with the dependency; it holds no link / script element)
                                   head=H.tags.meta(name="from-" + d["name"], content="c") if seq in ("other_place_first", "json_roundtrip") else None)
            if held_back:
                late.append((dep, held_back))
            deps.append(dep)
            recs.append({"name": b(d["name"]), "vstr": b(str(dep.version)), "src": d["src"], "href": b(d.get("href", "")),
                         "files": [b(f) for f in links + scripts], "nlinks": len(links), "allfiles": bool(d["allfiles"]),
                         "srcfiles": project(srcdir) if d["src"] in ("dir", "package") else [], "urls": []})
        dest = os.path.join(tmp, "dest dir")
        os.makedirs(dest)
        libdir = g["libdir"]
        libroot = os.path.join(dest, libdir) if libdir else dest
        # pre-existing destination state
        for di, d in enumerate(g["deps"]):
            tname = d["name"] + ("-" + str(deps[di].version) if g["inclver"] else "")
            if d.get("stale") == "file":
                os.makedirs(os.path.join(libroot, tname, "old"), exist_ok=True)
                open(os.path.join(libroot, tname, "old", "stale.txt"), "w").write("stale")
                open(os.path.join(libroot, tname, "stale.js"), "w").write("stale")
            elif d.get("stale") == "other":
                os.makedirs(os.path.join(libroot, "zz-other"), exist_ok=True)
                open(os.path.join(libroot, "zz-other", "keep.txt"), "w").write("keep")
        htmlfile = os.path.join(dest, g.get("file", "page.html"))
        if g.get("twice"):
            # history: an earlier save_html() into the same destination in this process, after which the destination
            # and the sources change (a copied file is deleted, a stale one appears, a source file gets new content)
            try:
                H.tags.div("first", *deps).save_html(os.path.join(dest, "first.html"), libdir=libdir, include_version=g["inclver"])
                os.remove(os.path.join(dest, "first.html"))
            except Exception:  # noqa
                pass
            for di, d in enumerate(g["deps"]):
                tname = d["name"] + ("-" + str(deps[di].version) if g["inclver"] else "")
                tdir = os.path.join(libroot, tname)
                if os.path.isdir(tdir):
                    copied = sorted(os.path.join(dp, f) for dp, _, fs in os.walk(tdir) for f in fs)
                    if copied:
                        os.remove(copied[0])
                    open(os.path.join(tdir, "left-over.txt"), "w").write("stale")
                if d["src"] in ("dir", "package") and d["present"]:
                    sd = recs[di]
                    srcdir_i = os.path.join(tmp, f"src{di}") if d["src"] == "dir" else None
                    if srcdir_i:
                        p0 = os.path.join(srcdir_i, d["present"][0])
                        if os.path.isfile(p0):
                            open(p0, "wb").write(b"rebuilt content")
                        recs[di]["srcfiles"] = project(srcdir_i)
        if g.get("seq") == "append_after" and late:
            # a first save with the dependencies as they were, then each one gets one more script through its public list
            try:
                H.tags.div("early", *deps).save_html(os.path.join(dest, "early.html"), libdir=libdir, include_version=g["inclver"])
                os.remove(os.path.join(dest, "early.html"))
            except Exception:  # noqa
                pass
            for dep_, f_ in late:
                dep_.script.append({"src": f_})
        if g.get("seq") == "other_place_first":
            # the same dependency objects saved somewhere else first, with the other settings
            other_dest = os.path.join(tmp, "elsewhere")
            os.makedirs(other_dest)
            try:
                H.TagList("first", *deps).save_html(os.path.join(other_dest, "o.html"), libdir="assets/x", include_version=not g["inclver"])
            except Exception:  # noqa
                pass
        if g.get("seq") == "json_roundtrip":
            # the dependencies travel as JSON through a text and come back from HTMLTextDocument before they are saved
            try:
                text = "<html><head>PH</head><body>" + "".join(d_.serialize_to_script_json().get_html_string() for d_ in deps) + "</body></html>"
                back = H.HTMLTextDocument(text, deps_replace_pattern="PH").render()["dependencies"]
                if len(back) == len(deps):
                    deps = back
            except Exception:  # noqa
                pass
        if g.get("seq") == "edit_as_dict":
            # what as_dict() hands back is the caller's: editing it changes nothing about the dependency
            for dep_ in deps:
                dd = dep_.as_dict(lib_prefix=libdir, include_version=g["inclver"])
                for it_ in dd["script"]:
                    it_["src"] = "https://cdn.example/replaced.js"
                for it_ in dd["stylesheet"]:
                    it_["href"] = it_["href"] + "?v=3"
                dd["script"].append({"src": "extra.js"})
                dd["name"] = "renamed"
        before = project(dest)
        how = g.get("how", "tag")
        obj = {"tag": lambda: H.tags.div("x", *deps), "list": lambda: H.TagList("x", *deps),
               "doc": lambda: H.HTMLDocument(H.tags.p("y"), *deps),
               # the caller's own <html> / <body> element as the sole content
               "html": lambda: H.tags.html(H.tags.head(H.tags.title("t")), H.tags.body("x", *deps)),
               "list_html": lambda: H.TagList(H.tags.html(H.tags.body(H.tags.div(*deps)))),
               "doc_html": lambda: H.HTMLDocument(H.tags.html(H.tags.body("x"), *deps), lang="en"),
               "body": lambda: H.tags.body("x", *deps)}[how]()
        raised, ret = False, None
        try:
            ret = obj.save_html(htmlfile, libdir=libdir, include_version=g["inclver"])
        except Exception:  # noqa
            raised = True
        written = os.path.isfile(htmlfile)
        retok = bool(ret is not None and written and os.path.realpath(str(ret)) == os.path.realpath(htmlfile))
        if written:
            text = open(htmlfile).read()
            evs = tokenize(text)
            # URLs as the bytes the file stores (UTF-8), comparable with the bytes of names and paths
            u8 = lambda v: list("".join(map(chr, v)).encode("utf-8", "surrogatepass"))
            urls_l = [u8(a["v"]) for e in evs if e["e"] in ("start", "self") and e["name"] == "link" for a in e["attrs"] if a["n"] == "href"]
            urls_s = [u8(a["v"]) for e in evs if e["e"] in ("start", "self") and e["name"] == "script" for a in e["attrs"] if a["n"] == "src"]
            li = si = 0
            for r in recs:
                nl = r["nlinks"]
                ns = len(r["files"]) - nl
                r["urls"] = urls_l[li:li + nl] + urls_s[si:si + ns]
                li += nl
                si += ns
            os.remove(htmlfile)
        after = project(dest)
        for r in recs:
            if len(r["urls"]) != len(r["files"]):
                r["urls"] = r["urls"] + [[]] * (len(r["files"]) - len(r["urls"]))
        return {"deps": recs, "libdir": b(libdir or ""), "inclver": bool(g["inclver"]), "before": before, "after": after,
                "raised": raised, "retok": retok, "written": written}
    finally:
        if added_path and added_path in sys.path:
            sys.path.remove(added_path)
        for m in [m for m in sys.modules if m.startswith("vpkg_")]:
            del sys.modules[m]
        shutil.rmtree(tmp, ignore_errors=True)


class C12(Prop):
    id = "C12"
    trace_module = "FilesTrace"
    design_ref = "DESIGN.md section 3, C12"
    rule = ("save_html on real directories: every case of the model (6 listings of 3 hostile-named candidate files x every "
            "subset of them present x all_files x include_version x stale target content x source kind) and seeded random "
            "cases (1-3 dependencies, 1-6 files each, names with spaces, %, #, ?, quotes, non-ASCII, nested directories; "
            "package sources; dependency names with spaces, @, + and non-ASCII; libdir None/lib/a/b; called on a tag, a list, a document and on content whose sole root is the caller's own html or body element).  Non-trivial: a file is copied "
            "or a listed file is missing.")
    assumptions = [
        "file contents are compared by sha256; paths are the bytes the OS stores",
        "the statement does not fix the encoding of URL-source paths: their URL is only judged when quoting is the identity",
        "several dependencies in one document have distinct names",
    ]

    def model_runs(self, tier):
        return [{"module": "MC_DepFiles", "cfg": f"DepFiles_{tier}.cfg"}]

    def nontrivial(self, rec):
        return any(d["srcfiles"] or (d["src"] in ("dir", "package") and d["files"]) for d in rec["deps"])

    def gens_from_export(self, lines, tier, rnd):
        gens = []
        for i, ln in enumerate(lines):
            c = ln["cas"]
            files = ["".join(map(chr, f)) for f in c["files"]]
            present = ["".join(map(chr, f)) for f in c["present"]]
            src = c["src"]
            if src == "dir" and i % 4 == 3:
                src = "package"
            links = [f for f in files if f.endswith(".css")]
            scripts = [f for f in files if not f.endswith(".css")]
            gens.append({"kind": "case", "seed": i, "libdir": "out/lib" if i % 3 else ["lib", None][i % 2], "inclver": c["inclver"],
                         "how": ["tag", "list", "doc", "html", "doc_html", "body", "list_html"][i % 7],
                         "deps": [{"name": "n", "version": "1.0", "src": src, "href": "h://u", "links": links, "scripts": scripts,
                                   "present": present, "allfiles": c["allfiles"], "stale": c["stale"]}]})
        return gens

    def gens_random(self, tier, rnd):
        gens = []
        for n in range(400 if tier == "quick" else 8000):
            deps = []
            for di in range(rnd.choice([1, 1, 2, 3])):
                files = list({rnd.choice(DIRS) + rnd.choice(HOSTILE_NAMES) for _ in range(rnd.randint(1, 6))})
                src = rnd.choice(["dir", "dir", "dir", "package", "url", "none"])
                present = [f for f in files if rnd.random() < 0.9] + [rnd.choice(DIRS) + "extra.txt"] * rnd.randint(0, 1)
                if rnd.random() < 0.7:
                    present = list(set(present) | set(files))
                listed = [f for f in files if rnd.random() < 0.8]
                deps.append({"name": rnd.choice([f"dep{di}.x", f"dep{di}.x", f"my widgets {di}", f"@acme.w{di}", f"d{di}+é~"]), "version": rnd.choice(["1.0", "0.0.1", "2.10"]), "src": src,
                             "href": rnd.choice(["https://cdn.example/lib", "https://cdn.example/lib/"]),
                             "links": [f for f in listed if f.endswith(".css")], "scripts": [f for f in listed if not f.endswith(".css")],
                             "present": present, "allfiles": rnd.random() < 0.3, "stale": rnd.choice(["none", "file", "other"])})
            gens.append({"kind": "case", "seed": n, "twice": rnd.random() < 0.3, "seq": rnd.choice(["", "", "append_after", "edit_as_dict", "other_place_first", "json_roundtrip"]),
                         "libdir": rnd.choice(["lib", None, "a/b", "my lib"]), "inclver": rnd.random() < 0.5,
                         "how": rnd.choice(["tag", "list", "doc", "html", "doc_html", "body", "list_html"]), "file": rnd.choice(["page.html", "sub dir/index.html"]) if False else "page.html",
                         "deps": deps})
        return gens

    def execute(self, g):
        import htmltools as H
        rec = run_case(g, H)
        rec["gen"] = g
        return rec
