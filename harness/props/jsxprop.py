"""C20: JSX components convert purely and surface all dependencies.

gamma builds a real component from an abstract tree (spec/JsxOps.tla); alpha is
(a) a recursive-descent reader for the React.createElement expression language
the writer emits and (b) the heap projection of purity.py extended to JSX
components and their props.  spec/trace/JsxTrace.tla compares the read
expression with El(tree) and the surfaced metadata with MetaOf(tree);
spec/trace/HeapTrace.tla checks that conversion changes nothing."""
from __future__ import annotations

import os

from ..core import Prop, cps, uncps
from . import purity


# ---------------------------------------------------------------------------
# alpha (a): reader for the emitted JavaScript
# ---------------------------------------------------------------------------
class ParseError(Exception):
    pass


class Reader:
    def __init__(self, s):
        self.s, self.i = s, 0

    def ws(self):
        while self.i < len(self.s) and self.s[self.i] in " \t\r\n":
            self.i += 1

    def expect(self, lit):
        self.ws()
        if not self.s.startswith(lit, self.i):
            raise ParseError(f"expected {lit!r} at {self.i}: {self.s[self.i:self.i + 30]!r}")
        self.i += len(lit)

    def peek(self, lit):
        self.ws()
        return self.s.startswith(lit, self.i)

    def string(self):
        self.expect('"')
        out = []
        while True:
            if self.i >= len(self.s):
                raise ParseError("unterminated string")
            c = self.s[self.i]
            if c == "\\" and self.i + 1 < len(self.s):
                out.append(self.s[self.i + 1])
                self.i += 2
                continue
            if c == '"':
                self.i += 1
                return "".join(out)
            out.append(c)
            self.i += 1

    def raw(self):
        """anything up to the next top-level , ) } ] with brackets balanced and strings skipped"""
        self.ws()
        start, depth = self.i, 0
        while self.i < len(self.s):
            c = self.s[self.i]
            if c in "\"'":
                q = c
                self.i += 1
                while self.i < len(self.s) and self.s[self.i] != q:
                    self.i += 2 if self.s[self.i] == "\\" else 1
                self.i += 1
                continue
            if c in "([{":
                depth += 1
            elif c in ")]}":
                if depth == 0:
                    break
                depth -= 1
            elif c == "," and depth == 0:
                break
            self.i += 1
        return self.s[start:self.i].strip()

    def element(self):
        self.expect("React.createElement(")
        self.ws()
        quoted = False
        if self.peek("'"):
            self.i += 1
            j = self.s.index("'", self.i)
            name, self.i, quoted = self.s[self.i:j], j + 1, True
        else:
            j = self.i
            while j < len(self.s) and (self.s[j].isalnum() or self.s[j] in "._$"):
                j += 1
            name, self.i = self.s[self.i:j], j
        props, kids = [], []
        if self.peek(","):
            self.expect(",")
            self.expect("{")
            if not self.peek("}"):
                while True:
                    k = self.string()
                    self.expect(":")
                    props.append({"k": cps(k), "v": self.value()})
                    if self.peek(","):
                        self.expect(",")
                        continue
                    break
            self.expect("}")
            while self.peek(","):
                self.expect(",")
                kids.append(self.child())
        self.expect(")")
        return {"e": "el", "name": cps(name), "quoted": quoted, "props": props, "kids": kids, "t": []}

    def child(self):
        if self.peek('"'):
            return {"e": "str", "name": [], "quoted": False, "props": [], "kids": [], "t": cps(self.string())}
        return self.element()

    def value(self):
        if self.peek('"'):
            return {"j": "str", "t": cps(self.string()), "items": []}
        if self.peek("["):
            self.expect("[")
            items = []
            if not self.peek("]"):
                while True:
                    items.append(self.value())
                    if self.peek(","):
                        self.expect(",")
                        continue
                    break
            self.expect("]")
            return {"j": "arr", "t": [], "items": items}
        if self.peek("{"):
            self.expect("{")
            items = []
            if not self.peek("}"):
                while True:
                    k = self.string()
                    self.expect(":")
                    items.append({"k": cps(k), "v": self.value()})
                    if self.peek(","):
                        self.expect(",")
                        continue
                    break
            self.expect("}")
            return {"j": "obj", "t": [], "items": items}
        if self.peek("React.createElement("):
            return {"j": "el", "t": [], "items": [self.element()]}
        return {"j": "raw", "t": cps(self.raw()), "items": []}


def read_script(js: str):
    i = js.index("ReactDOM.render(") + len("ReactDOM.render(")
    r = Reader(js)
    r.i = i
    return r.element()


# ---------------------------------------------------------------------------
# gamma
# ---------------------------------------------------------------------------
def mkdep(label, H):
    """label = name or name@version"""
    name, _, ver = label.partition("@")
    return H.HTMLDependency(name, ver or "1.0")


def deplabel(d):
    return d.name if str(d.version) == "1.0" else f"{d.name}@{d.version}"


class JTfy:
    def __init__(self, mode, content, payload, H):
        self.mode, self.content, self.payload, self._H = mode, content, payload, H

    nested = None

    def tagify(self):
        H = self._H
        if self.nested is not None:
            inner = self.nested.jsx_tag_create("Preview")(mkdep("d3", H), "p")
            str(inner)
            inner.tagify()
        if self.mode == "tag":
            return H.Tag("span", self.content.tagify(), _add_ws=False)
        if self.mode == "str":
            return self.payload
        return mkdep(self.payload, H)


def conc_val(val, H, J, salt, alias=None):
    p = val["p"]
    if p == "none":
        return None
    if p == "true":
        return True
    if p == "false":
        return False
    if p == "num":
        t = uncps(val["v"])
        return int(t) if t.lstrip("-").isdigit() else float(t)
    if p == "str":
        return uncps(val["v"])
    if p == "jsx":
        return J.jsx(uncps(val["v"]))
    if p == "list":
        return [conc_val(x, H, J, salt, alias) for x in val["items"]]
    if p == "tuple":
        return tuple(conc_val(x, H, J, salt, alias) for x in val["items"])
    if p == "dict":
        return {uncps(it["k"]): conc_val(it["val"], H, J, salt, alias) for it in val["items"]}
    if p == "node":
        return build(val["items"][0], H, J, salt, alias)
    raise ValueError(p)


def build(x, H, J, salt=0, alias=None):
    """alias (gamma option): structurally equal tag / component subtrees are ONE object placed several times."""
    if alias is not None and x["f"] in ("T", "C"):
        import json as _json
        key = _json.dumps(x, sort_keys=True)
        if key in alias:
            return alias[key]
        obj = _build(x, H, J, salt, alias)
        alias[key] = obj
        return obj
    return _build(x, H, J, salt, alias)


def _build(x, H, J, salt, alias):
    f = x["f"]
    if f == "S":
        return uncps(x["v"])
    if f == "D":
        return mkdep(uncps(x["name"]), H)
    if f == "M":
        return H.MetadataNode()
    kids = [build(k, H, J, salt + 1, alias) for k in x["kids"]]
    if f == "F":
        t_ = JTfy(x["mode"], H.TagList(*kids), uncps(x["v"]) if x["mode"] == "str" else uncps(x["name"]), H)
        # gamma option: while it expands, the object converts an unrelated component of its own (a preview, a cache key...)
        t_.nested = (J if salt % 3 == 0 else None)
        return t_
    if f == "T":
        return H.Tag(uncps(x["name"]), *kids, _add_ws=False, **{uncps(p["k"]): conc_val(p["val"], H, J, salt, alias) for p in x["props"]})
    if f == "C":
        props = {uncps(p["k"]): conc_val(p["val"], H, J, salt, alias) for p in x["props"]}
        make = J.jsx_tag_create(uncps(x["name"]))
        how = salt % 5
        if how == 0 or not kids:
            return make(*kids, **props)
        c = make(**props)
        if how == 1:
            c.append(*kids)
        elif how == 2:
            c.extend(kids)
        elif how == 3:
            c.extend(iter(kids))                  # a one-shot iterable
        else:
            c.extend(k for k in kids[:1])
            c.extend(map(lambda k: k, kids[1:]))
        return c
    raise ValueError(f)


class JProj(purity.Proj):
    def __init__(self, H, J):
        super().__init__(H)
        self.J = J

    def ref(self, o, seen):
        if isinstance(o, (list, tuple)) and not isinstance(o, self.H.TagList):
            n = self.oid(o)
            if n not in seen:
                seen.add(n)
                self.heap[n - 1] = self.obj("list", items=[self.ref(c, seen) for c in o])
            return {"r": "id", "v": "", "n": n}
        if isinstance(o, dict):
            return {"r": "id", "v": "", "n": self.attrs_obj(o, seen)}
        if isinstance(o, self.J.jsx):
            return {"r": "str", "v": "jsx:" + str(o), "n": 0}
        if o is None or isinstance(o, (bool, int, float)):
            return {"r": "str", "v": repr(o), "n": 0}
        return super().ref(o, seen)

    def attrs_obj(self, d, seen):
        n = self.oid(d)
        if n in seen:
            return n
        seen.add(n)
        items = []
        for k, v in d.items():
            items.append({"r": "kv", "v": f"{k}=", "n": 0})
            items.append(self.ref(v, seen))
        self.heap[n - 1] = self.obj("attrs", items=items)
        return n

    def visit(self, o, seen):
        if isinstance(o, self.J.JSXTag):
            n = self.oid(o)
            if n in seen:
                return n
            seen.add(n)
            k = self.list_obj(o.children, seen)
            a = self.attrs_obj(o.attrs, seen)
            self.heap[n - 1] = self.obj("jsx", o.name, a=a, k=k)
            return n
        if isinstance(o, JTfy):
            n = self.oid(o)
            if n in seen:
                return n
            seen.add(n)
            k = self.list_obj(o.content, seen)
            self.heap[n - 1] = self.obj("tfy", o.mode, k=k)
            return n
        return super().visit(o, seen)


class C20(Prop):
    id = "C20"
    trace_module = "JsxTrace"
    design_ref = "DESIGN.md section 3, C20"
    rule = ("component trees up to the bound over {component, tag, string, empty string, dependency, bare metadata, "
            "tagifiable (tag-, string-, dependency-valued)} with the root's props from five sets covering every value kind "
            "(TLC), and seeded random trees to depth 5 with random props; children added by constructor / append / extend; "
            "each converted three times (tagify, str, tagify); allow-lists with exact, case-variant and absent names.  "
            "Non-trivial: the tree has a nested node or a non-scalar prop.")
    assumptions = [
        "the emitted expression is read by a recursive-descent reader for React.createElement(name, {props}, children...) with "
        "double-quoted strings, arrays, objects and raw atoms (numbers, true/false/null, jsx() text, chosen bracket-balanced "
        "and comma-free)",
        "strings are free of backslashes and line breaks (the statement's scope); jsx() expressions and HTML() are not used as children",
        "style prop strings are of the form k:v;k:v with distinct keys",
        "surfaced metadata is read off the children of the emitted <script> element and compared as a multiset of name@version labels",
    ]

    def model_runs(self, tier):
        runs = [{"module": "MC_Jsx", "cfg": f"Jsx_{tier}.cfg"}]
        if tier == "thorough":
            runs.append({"module": "MC_Jsx", "cfg": "Jsx_sim.cfg", "simulate": "num=5000", "depth": 12, "export": False, "timeout": 900})
        return runs

    def nontrivial(self, rec):
        if rec.get("k") == "conv":
            t = rec["tree"]
            return bool(t["kids"]) or any(p["val"]["p"] in ("list", "tuple", "dict", "node") for p in t["props"])
        return True

    def gens_from_export(self, lines, tier, rnd):
        return [{"kind": "conv", "tree": ln["tree"], "salt": i} for i, ln in enumerate(lines)]

    # -- random trees ---------------------------------------------------
    TEXTS = ["s", "", "a \"quoted\" word", "é😀", "it's", "<b>&amp;</b>", "x, y) }", "  "]

    def rval(self, rnd, depth):
        r = rnd.random()
        mk = lambda p, v=(), items=(): {"p": p, "v": list(v), "items": list(items)}
        if r < 0.1:
            return mk("none")
        if r < 0.2:
            return mk(rnd.choice(["true", "false"]))
        if r < 0.3:
            return mk("num", cps(rnd.choice(["0", "1", "-3", "2.5", "1e+22"])))
        if r < 0.5:
            return mk("str", cps(rnd.choice(self.TEXTS)))
        if r < 0.6:
            return mk("jsx", cps(rnd.choice(["f.g", "() => 1", "window.x[0]", "a ? b : c"])))
        if depth > 2 or r < 0.62:
            return mk("str", cps("z"))
        if r < 0.75:
            return mk(rnd.choice(["list", "tuple"]), items=[self.rval(rnd, depth + 1) for _ in range(rnd.randint(0, 3))])
        if r < 0.85:
            # (keys that mean something special as TOP-LEVEL props are ordinary keys inside a dict value)
            ks = rnd.sample(["k", "m", "a b", "c-d", "style", "class_", "children", "className", "a__b", "x___y"], rnd.randint(0, 3))
            return {"p": "dict", "v": [], "items": [{"k": cps(k), "val": self.rval(rnd, depth + 1)} for k in ks]}
        if depth > 0:
            # inside a list/dict value only tags and components are written as elements (values inside
            # containers are not walked, so tagifiable objects there are outside the statement)
            n = self.rnode(rnd, depth + 1, rnd.choice("CT"), True)
            return mk("node", items=[self.strip_f(n)])
        n = self.rnode(rnd, depth + 1, rnd.choice("CTF"))
        if n["f"] == "F" and n["mode"] == "dep":
            n["mode"], n["v"] = "str", cps("w")
        return mk("node", items=[n])

    def strip_f(self, n):
        n = dict(n)
        n["kids"] = [self.strip_f(k) for k in n["kids"] if k["f"] != "F"]
        n["props"] = [p for p in n["props"] if p["val"]["p"] != "node"]
        return n


    def rnode(self, rnd, depth, kind=None, under_f=False):
        nd = lambda f, name="", props=(), kids=(), v="", mode="": {"f": f, "name": cps(name), "props": list(props), "kids": list(kids), "v": cps(v), "mode": mode}
        kind = kind or rnd.choice(("CCTTSSSDMFE" if not under_f else "TTSSSDME") if depth < 4 else "SSDME")
        if kind == "S":
            return nd("S", v=rnd.choice(self.TEXTS))
        if kind == "E":
            return nd("S", v="")
        if kind == "D":
            return nd("D", name=rnd.choice(["d1", "d2", "d3", "d1@2.0", "d1@0.9", "d2@1.10"]))
        if kind == "M":
            return nd("M")
        kids = [self.rnode(rnd, depth + 1, None, under_f or kind == "F") for _ in range(rnd.randint(0, 3))] if depth < 4 else []
        if kind == "F":
            mode = rnd.choice(["tag", "str", "dep"])
            if mode == "tag":
                return nd("F", kids=kids, mode="tag")
            if mode == "str":
                return nd("F", v=rnd.choice(["w", "q\"r"]), mode="str")
            return nd("F", name="fd", mode="dep")
        if kind == "T":
            attrs = [{"k": cps(k), "val": {"p": "str", "v": cps(rnd.choice(["v", "a\"b", ""])), "items": []}}
                     for k in rnd.sample(["id", "class_", "data_x", "title"], rnd.randint(0, 2))]
            if rnd.random() < 0.2:
                attrs.append({"k": cps("style"), "val": {"p": "str", "v": cps("color:red;margin:0"), "items": []}})
            return nd("T", name=rnd.choice(["div", "span", "p"]), props=attrs, kids=kids)
        keys = rnd.sample(["a", "class_", "data_x", "onClick", "x__", "value", "aria_label", "block__elem", "a__b", "a_b", "x___y_", "_lead"],
                          rnd.randint(0, 4))
        props = [{"k": cps(k), "val": self.rval(rnd, 0)} for k in keys]
        if rnd.random() < 0.3:
            sv = rnd.choice([{"p": "none", "v": [], "items": []}, {"p": "str", "v": cps("color:red;border:1px solid"), "items": []},
                             {"p": "dict", "v": [], "items": [{"k": cps("color"), "val": {"p": "str", "v": cps("red"), "items": []}}]},
                             # a style object with values that are not strings (React takes numbers and null as they are)
                             {"p": "dict", "v": [], "items": [{"k": cps("opacity"), "val": {"p": "num", "v": cps("2.5"), "items": []}},
                                                              {"k": cps("zIndex"), "val": {"p": "num", "v": cps("1"), "items": []}},
                                                              {"k": cps("margin"), "val": {"p": "none", "v": [], "items": []}},
                                                              {"k": cps("display"), "val": {"p": "str", "v": cps(" block "), "items": []}}]}])
            props.append({"k": cps("style"), "val": sv})
        return nd("C", name=rnd.choice(["Foo", "Bar", "Lib.Baz"]), props=props, kids=kids)

    def gens_random(self, tier, rnd):
        gens = []
        for n in range(500 if tier == "quick" else 10000):
            t_ = self.rnode(rnd, 1, "C")
            al = False
            cands = [k for k in t_["kids"] if k["f"] in ("T", "C")]
            if cands and rnd.random() < 0.3:
                # the same tag / component object at a second place: as a child again (wrapped or not), or as a prop value
                import copy as _copy
                k = rnd.choice(cands)
                how = rnd.choice(["child", "wrapped", "prop"])
                if how == "child":
                    t_["kids"].append(_copy.deepcopy(k))
                elif how == "wrapped":
                    t_["kids"].append({"f": "T", "name": cps("div"), "props": [], "kids": [_copy.deepcopy(k)], "v": [], "mode": ""})
                elif not any(p["k"] == cps("footer") for p in t_["props"]):
                    t_["props"].append({"k": cps("footer"), "val": {"p": "node", "v": [], "items": [self.strip_f(_copy.deepcopy(k))]}})
                al = True
            seq = "mutate_between" if (not al and rnd.random() < 0.25 and not any(uncps(p_["k"]) == "added" for p_ in t_["props"])) else ""
            gens.append({"kind": "conv", "tree": t_, "salt": n, "alias": al, "seq": seq})
        names = ["a", "A", "class_", "onClick", "onclick", "b"]
        for _ in range(200 if tier == "quick" else 2000):
            allowed = rnd.sample(names, rnd.randint(1, 4))
            given = rnd.sample(names, rnd.randint(0, 3))
            gens.append({"kind": "allow", "allowed": allowed, "given": given})
        return gens

    def execute(self, g):
        import htmltools as H
        from htmltools import _jsx as J
        if g["kind"] == "allow":
            raised = False
            try:
                J.jsx_tag_create("Foo", allowedProps=list(g["allowed"]))(**{k: 1 for k in g["given"]})
            except NotImplementedError:
                raised = True
            return {"k": "allow", "allowed": [cps(a) for a in g["allowed"]], "given": [cps(a) for a in g["given"]],
                    "raised": raised, "gen": g}
        tree = g["tree"]
        x = build(tree, H, J, g.get("salt", 0), {} if g.get("alias") else None)
        p = JProj(H, J)
        heap0, roots0 = p.snapshot([x])
        events = []
        out = None
        prev_res = None
        for op in ("jsx_tagify", "jsx_str", "jsx_tagify"):
            ev = {"op": op, "ro": True, "root": 1, "newroot": 0, "via": 0, "res": "", "eq": True, "arg": "conv", "prevnew": 0}
            try:
                if op == "jsx_tagify":
                    t = x.tagify()
                    s = t.get_html_string()
                    ev["_result"] = t
                    if out is None:
                        out = t
                else:
                    s = str(x)
                ev["res"] = purity.digest(s)
            except Exception as ex:  # noqa
                ev["res"] = "EXC:" + type(ex).__name__
            res_obj = ev.pop("_result", None)
            extra = ([res_obj] if res_obj is not None else []) + ([prev_res] if prev_res is not None and res_obj is not None else [])
            heap, rs = p.snapshot([x] + extra)
            ev["heap"], ev["roots"] = heap, rs[:1]
            ev["newroot"] = rs[1] if res_obj is not None else 0
            ev["prevnew"] = rs[2] if len(rs) > 2 else 0
            if res_obj is not None:
                prev_res = res_obj
            events.append(ev)
        recs = [{"k": "hist", "heap0": heap0, "roots0": roots0, "events": events, "gen": g, "_module": "HeapTrace"}]
        if g.get("seq") == "mutate_between" and out is not None:
            # between two conversions: the caller edits what the FIRST conversion returned (its react dependencies are the
            # caller's), and changes the component through its public attributes; the next conversion mirrors the component
            # as it is then and carries the packaged react dependencies again
            import copy as _copy
            for d_ in [c_ for c_ in out.children if isinstance(c_, H.HTMLDependency)][:2]:
                d_.name = d_.name + "-edited-by-caller"
                d_.source = {"href": "https://elsewhere.example/"}
                if d_.script:
                    d_.script[0]["src"] = "replaced.js"
            for d_ in H.HTMLDocument(out).render()["dependencies"][:2]:
                d_.name = "x"
            x.attrs["added"] = "v"
            x.children.insert(0, "first")
            tree = _copy.deepcopy(tree)
            tree["props"] = tree["props"] + [{"k": cps("added"), "val": {"p": "str", "v": cps("v"), "items": []}}]
            tree["kids"] = [{"f": "S", "name": [], "props": [], "kids": [], "v": cps("first"), "mode": ""}] + tree["kids"]
            out = x.tagify()
        conv = {"k": "conv", "tree": tree, "parsed": False, "expr": {"e": "str", "name": [], "quoted": False, "props": [], "kids": [], "t": []},
                "deps": [], "nbare": 0, "reactFirst": False, "reactFiles": False, "gen": g}
        if out is not None:
            try:
                js = str(out.children[0]) if len(out.children) else ""
                conv["expr"] = read_script(js)
                conv["parsed"] = True
            except (ParseError, ValueError, IndexError):
                pass
            deps = out.get_dependencies()
            names = [d.name for d in deps]
            conv["reactFirst"] = names[:2] == ["react", "react-dom"]
            ok = True
            for d in deps[:2]:
                src = d.source_path_map()["source"]
                ok = ok and all(os.path.isfile(os.path.join(src, s["src"])) for s in d.script)
            conv["reactFiles"] = bool(ok and len(deps) >= 2)
            # every metadata node carried by the script element itself (before any resolution by name)
            carried = [c for c in out.children if isinstance(c, H.HTMLDependency)]
            conv["deps"] = [cps(deplabel(d)) for d in carried[2:]]
            conv["nbare"] = sum(1 for c in out.children if type(c) is H.MetadataNode)
        recs.append(conv)
        return recs
