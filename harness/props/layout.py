"""C05, C06, C07: layout of rendered trees.  gamma builds a real tree from an
abstract one (unique id attribute on every tag, delimited id payload in every
leaf), alpha scans the output into layout tokens; spec/trace/RenderTrace.tla
judges."""
from __future__ import annotations

import re

from ..core import Prop
from .. import gamma

L, R = "\ue001", "\ue002"


def _lib():
    import htmltools
    return htmltools


_NAMES = None


def names():
    global _NAMES
    if _NAMES is None:
        cat = gamma.catalogue()
        alln = sorted(set(cat["tags"]) | set(cat["svg"]))
        nonvoid = [n for n in alln if n not in gamma.VOID_NAMES]
        _NAMES = {"nonvoid": nonvoid + ["my-el", "x:y", "Custom.El", "h7"], "void": list(gamma.VOID_NAMES)}
    return _NAMES


def build(node, H, salt: int, eolstr: str, strip_meta=False, late_meta=0, group=False, index=None):
    """gamma: abstract node -> real object (None for a stripped metadata node).  index (optional): id -> real object;
    a node whose id is already in it is the SAME object placed again (an abstract tree may repeat a subtree)."""
    if index is not None and node["id"] in index:
        return index[node["id"]]
    obj = _build(node, H, salt, eolstr, strip_meta, late_meta, group, index)
    if index is not None:
        index[node["id"]] = obj
    return obj


def _build(node, H, salt, eolstr, strip_meta, late_meta, group, index):
    k, i = node["k"], node["id"]
    if k == "E":
        return "" if (i + salt) % 2 == 0 else H.HTML("")
    if k in ("T", "H", "R"):
        txt = lambda toks: "".join(eolstr if t[0] == "eol" else ("  " if t[0] == "ind" else "\n" if t[0] == "nl" else f"{L}{t[1]}{R}")
                                   for t in toks)
        payload = f"{txt(node.get('pre', []))}{L}{i}{R}{txt(node.get('tail', []))}"
        if k == "T":
            return payload
        if k == "H":
            return H.HTML(payload)
        return gamma.ReprObj(payload)
    if k == "M":
        if strip_meta:
            return None
        m = (i + salt) % 5
        if m == 0:
            return H.MetadataNode()
        if m == 1:
            return H.HTMLDependency(f"dep{i}", "1.0", head="<meta name='x'>")
        if m == 2:
            # renders fine but could not be serialised to JSON (only json render mode may care)
            import pathlib
            return H.HTMLDependency(f"pth{i}", "2.0", source={"subdir": pathlib.Path("some/dir")}, script={"src": "a.js"})
        if m == 3:
            return H.HTMLDependency(f"lazy{i}", "0.1", head=gamma.Tfy(lambda: H.tags.title("t")))
        return H.head_content(H.tags.title(str(i)))
    kids = [build(c, H, salt, eolstr, strip_meta, late_meta, group, index) for c in node["c"]]
    kids = [x for x in kids if x is not None] if strip_meta else kids
    if group and len(kids) >= 2 and (i + salt) % 2 == 0:
        # gamma option: a run of adjacent siblings arrives as ONE tagifiable object whose expansion is a TagList of
        # them (spliced in place by tagify(): the same tree, so the same markup)
        a = (i * 3 + salt) % (len(kids) - 1)
        b = min(len(kids), a + 2 + (i + salt) % 2)
        run = kids[a:b]
        kids = kids[:a] + [gamma.Tfy(lambda run=run: H.TagList(*run).tagify())] + kids[b:]
    if k == "L":
        return H.TagList(*kids)
    nm = names()
    if node.get("name"):
        name = node["name"]
    elif k in ("V", "W"):
        name = nm["void"][(i + salt) % len(nm["void"])]
    else:
        name = nm["nonvoid"][(i * 7 + salt) % len(nm["nonvoid"])]
        if (i + salt) % 6 == 0:
            name = ["pre", "textarea", "listing", "title", "option", "p"][(i * 5 + salt) % 6]   # names parsers treat specially
    if late_meta == 2 and not strip_meta:
        # gamma option: children arrive one by one inside a `with tag:` block; metadata nodes are DISPLAYED there
        import sys
        t = H.Tag(name, {"i": str(i)}, _add_ws=(k in ("B", "V")))
        with t:          # (one block: a tag's context cannot be entered a second time)
            for x, c in zip(kids, node["c"]):
                # (a displayed _repr_html_ object is stored as HTML(), which is a different kind of child: not displayed)
                if c["k"] == "M" or (c["k"] != "R" and (i + len(kids)) % 2):
                    sys.displayhook(x)
                else:
                    t.append(x)
        return t
    if late_meta and not strip_meta:
        # gamma option: metadata nodes arrive after construction, through the child list itself
        t = H.Tag(name, {"i": str(i)}, *[x for x, c in zip(kids, node["c"]) if c["k"] != "M"], _add_ws=(k in ("B", "V")))
        last_nonmeta = max([p_ for p_, c in enumerate(node["c"]) if c["k"] != "M"], default=-1)
        for pos, (x, c) in enumerate(zip(kids, node["c"])):
            if c["k"] == "M":
                how_ = (i + pos) % 4
                if how_ == 2:
                    t.insert(pos, H.TagList(x))                    # grouped metadata: spliced like any nested list
                elif how_ == 3 and pos > last_nonmeta:
                    t.children += [H.TagList(x), None]             # += normalises too
                else:
                    [t.children.insert, t.insert][how_ % 2](pos, x)
        return t
    if (i + salt) % 5 == 0 and not strip_meta:
        # gamma option: the children arrive as ONE TagList that is also handed to a second tag, to which more is added
        shared_ = H.TagList(*kids)
        t = H.Tag(name, {"i": str(i)}, shared_, _add_ws=(k in ("B", "V")))
        twin = H.Tag("section", shared_)
        twin.append(H.tags.ul(H.tags.li("only in the twin")), "and text")
        shared_.append("only in the caller's list")
        return t
    return H.Tag(name, {"i": str(i)}, *kids, _add_ws=(k in ("B", "V")))


_OPEN = re.compile(r'<([A-Za-z][\w:.-]*) i="(\d+)"(/?)>')
_CLOSE = re.compile(r"</([A-Za-z][\w:.-]*)>")
_LEAF = re.compile(L + r"(\d+)" + R)


def scan(out: str, eolstr: str):
    """alpha: output string -> layout tokens.  Knows nothing about layout rules;
    anything unexpected becomes a junk token (and so falsifies whatever it touches)."""
    toks = []
    stack = []
    i, n = 0, len(out)
    while i < n:
        if eolstr and out.startswith(eolstr, i):
            toks.append(["eol", 0])
            i += len(eolstr)
            continue
        if out.startswith("  ", i):
            toks.append(["ind", 0])
            i += 2
            continue
        if out[i] == "\n":
            # a line feed that is not (part of) the eol string in use: content, never layout
            toks.append(["nl", 0])
            i += 1
            continue
        m = _OPEN.match(out, i)
        if m:
            if m.group(3):
                toks.append(["void", int(m.group(2))])
            else:
                toks.append(["open", int(m.group(2))])
                stack.append((m.group(1), int(m.group(2))))
            i = m.end()
            continue
        m = _CLOSE.match(out, i)
        if m:
            if stack and stack[-1][0] == m.group(1):
                toks.append(["close", stack.pop()[1]])
            else:
                toks.append(["junk", -1])
            i = m.end()
            continue
        m = _LEAF.match(out, i)
        if m:
            toks.append(["leaf", int(m.group(1))])
            i = m.end()
            continue
        toks.append(["junk", ord(out[i])])
        i += 1
    if stack:
        toks.append(["junk", -2])
    return toks


def apply_mutation(t, index, m, H, salt, eolstr, fresh_id):
    """One public-API mutation applied to the abstract tree t (in place) and to the real objects (index: id -> object)."""
    targets = [n for n in _walk(t) if n["k"] in "BIVWL"]
    n = targets[m["target"] % len(targets)]
    o = index[n["id"]]
    kids_obj = o if n["k"] == "L" else o.children
    op = m["op"]
    leaf = lambda k_: {"k": k_, "id": fresh_id, "c": [], "tail": [], "pre": []}
    if op == "pop_last" and n["c"]:
        n["c"].pop()
        kids_obj.pop()
    elif op == "pop_first" and n["c"]:
        n["c"].pop(0)
        kids_obj.pop(0)
    elif op == "clear":
        n["c"].clear()
        kids_obj.clear()
    elif op in ("append_leaf", "insert_leaf0", "append_html"):
        nd = leaf("H" if op == "append_html" else "T")
        x = build(nd, H, salt, eolstr, index=index)
        if op == "insert_leaf0":
            n["c"].insert(0, nd)
            o.insert(0, x)
        else:
            n["c"].append(nd)
            o.append(x)
    elif op in ("append_inline", "append_block"):
        nd = {"k": "I" if op == "append_inline" else "B", "id": fresh_id, "c": [leaf("T") | {"id": fresh_id + 1}], "tail": [], "pre": []}
        n["c"].append(nd)
        o.append(build(nd, H, salt, eolstr, index=index))
    elif op == "toggle_ws" and n["k"] != "L":
        n["k"] = {"B": "I", "I": "B", "V": "W", "W": "V"}[n["k"]]
        o.add_ws = not o.add_ws
    elif op == "again" and n["c"] and n["k"] != "L":
        # the same child object placed a second time, at the end of the same parent
        c = n["c"][m["target"] % len(n["c"])]
        if c["k"] in "IWTHE":
            n["c"].append(c)
            o.append(index[c["id"]])


def render(obj, H, indent, eolstr, addws):
    try:
        return _render(obj, H, indent, eolstr, addws)
    except (TypeError, AttributeError, RuntimeError) as ex:
        # a tree of valid children that the library cannot render: recorded as output that is nothing but junk
        return "\ue00f raised " + type(ex).__name__


def _render(obj, H, indent, eolstr, addws):
    if isinstance(obj, H.TagList):
        if addws:
            return obj.get_html_string(indent, eolstr)
        return obj.get_html_string(indent, eolstr, add_ws=False)
    return obj.get_html_string(indent, eolstr)


def norm_tree(t):
    out = {"k": t["k"], "id": t["id"], "tail": t.get("tail", []), "pre": t.get("pre", []), "c": [norm_tree(c) for c in t.get("c", [])]}
    if t.get("name"):
        out["name"] = t["name"]          # gamma hint only: the specification never looks at element names
    return out


def has_kind(t, ks):
    return t["k"] in ks or any(has_kind(c, ks) for c in t["c"])


def size(t):
    return 1 + sum(size(c) for c in t["c"])


class _LayoutBase(Prop):
    trace_module = "RenderTrace"
    assumptions = [
        "every tag carries a unique i=\"<id>\" attribute and every leaf a delimited id payload (private-use delimiters) so "
        "that a regular-expression scanner can attribute each piece of output to a node; the scanner maps eol strings "
        "and two-space units to layout tokens and anything else to a junk token",
        "eol strings are drawn from {LF, CRLF, LF LF, ' | ', TAB, a private-use marker, the empty string}; content may hold bare "
        "line feeds (token nl) and may begin or end with line breaks and spaces (pre / tail tokens)",
        "gamma options (chosen by the case's salt): metadata inserted after construction or displayed inside a with-block, a run "
        "of siblings handed over as one tagifiable, the same child object placed twice, and the reuse mode (render, change "
        "through the public API, render again: the last rendering is judged against the tree as it is then)",
    ]
    EOLS = ["\n", "", "\r\n", "\ue003", "\n\n", " | ", "\t"]

    def model_runs(self, tier):
        runs = [{"module": "Render", "cfg": f"Render_{tier}.cfg"}]
        if tier == "thorough":
            runs.append({"module": "Render", "cfg": "Render_sim.cfg", "simulate": "num=20000", "depth": 14, "export": False, "timeout": 900})
        return runs

    def gens_from_export(self, lines, tier, rnd):
        gens = []
        for n, ln in enumerate(lines):
            t = ln["tree"]
            combos = [(0, "\n", True), (2, "\n", True), (1, "", True)]
            if t["k"] == "L":
                combos.append((1, "\n", False))
            if tier == "thorough":
                combos += [(3, "\r\n", True), (0, "", True)]
            for (ind, eol, aw) in combos:
                gens.append({"kind": "render", "tree": t, "indent": ind, "eol": eol, "addws": aw, "salt": n})
        return gens

    def rand_tree(self, rnd, maxnodes, maxdepth, tails=False):
        counter = [0]

        def node(depth, root=False):
            counter[0] += 1
            i = counter[0]
            if root:
                k = rnd.choice("BBIVWL")
            elif depth >= maxdepth or counter[0] >= maxnodes:
                k = rnd.choice("THRMTTVWE")
            else:
                k = rnd.choice("BBBIIIVWTTTHRME")
            nd = {"k": k, "id": i, "c": [], "tail": [], "pre": []}
            if k in "BIVWL":
                if k in "VW" and rnd.random() < 0.7 and not root:
                    nkids = rnd.choice([0, 0, 1])
                else:
                    nkids = rnd.randint(0, 5)
                for _ in range(nkids):
                    if counter[0] >= maxnodes:
                        break
                    nd["c"].append(node(depth + 1))
            elif tails and k in "TH" and rnd.random() < 0.3:
                # content that itself contains line breaks / spaces: at its end, or in the middle (continuation leaf)
                nd["tail"] = rnd.choice([[["eol", 0]], [["eol", 0], ["ind", 0]], [["ind", 0]],
                                         [["eol", 0], ["ind", 0], ["ind", 0]], [["eol", 0], ["eol", 0]],
                                         [["eol", 0], ["leaf", i]], [["eol", 0], ["ind", 0], ["leaf", i], ["eol", 0], ["leaf", i]],
                                         [["nl", 0]], [["nl", 0], ["leaf", i]], [["nl", 0], ["ind", 0], ["leaf", i], ["nl", 0]]])
                if rnd.random() < 0.4:
                    # content that BEGINS with a line break (e.g. the text of a <pre> / <textarea>)
                    nd["pre"] = rnd.choice([[["nl", 0]], [["eol", 0]], [["nl", 0], ["ind", 0]], [["ind", 0]]])
                    if rnd.random() < 0.5:
                        nd["tail"] = []
            return nd
        return node(1, root=True)

    def gens_random(self, tier, rnd):
        gens = []
        n = 700 if tier == "quick" else 15000
        for j in range(n):
            t = self.rand_tree(rnd, rnd.choice([8, 20, 60]), rnd.choice([3, 5, 8]), tails=(j % 3 == 0))
            eol = rnd.choice(self.EOLS)
            if any(tk[0] == "eol" for nd in _walk(t) for tk in nd["tail"] + nd["pre"]) and eol == "":
                eol = "\n"
            if any(tk[0] == "nl" for nd in _walk(t) for tk in nd["tail"] + nd["pre"]) and eol.startswith("\n"):
                # a bare line feed in the content is only distinguishable from layout when eol is something else
                has_eol_tail = any(tk[0] == "eol" for nd in _walk(t) for tk in nd["tail"] + nd["pre"])
                eol = rnd.choice(["\r\n", "\ue003", " | ", "\t"] + ([] if has_eol_tail else [""]))
            gens.append({"kind": "render", "tree": t, "indent": rnd.randint(0, 5), "eol": eol,
                         "addws": (rnd.random() < 0.8) if t["k"] == "L" else True, "salt": rnd.randrange(1000)})
        # the same objects used again (render / mutate / render), incl. one child object placed twice in a parent
        ops = ["pop_last", "pop_first", "clear", "append_leaf", "insert_leaf0", "append_html", "append_inline", "append_block",
               "toggle_ws", "again", "again"]
        for j in range(250 if tier == "quick" else 5000):
            t = self.rand_tree(rnd, rnd.choice([4, 8, 15]), rnd.choice([2, 3, 5]))
            if t["k"] in "TH":
                continue
            gens.append({"kind": "render", "tree": t, "indent": rnd.choice([0, 1, 3]), "eol": rnd.choice(["\n", "\n", "\r\n", ""]),
                         "addws": True, "salt": rnd.randrange(1000) * 8,
                         "mut": [{"op": rnd.choice(ops), "target": rnd.randrange(50)} for _ in range(rnd.randint(1, 3))]})
        # the object-history machine (spec/ObjOps.tla): a tree that has a history renders like a fresh one
        from .. import objhist
        gens += objhist.gens(rnd, 120 if tier == "quick" else 2500, 5)
        # the caller's own <body> (block or inline) as the sole content of an HTMLDocument
        for j in range(40 if tier == "quick" else 800):
            t = self.rand_tree(rnd, rnd.choice([6, 15]), rnd.choice([3, 5]))
            if t["k"] in "BI":
                t["name"] = "body"
                gens.append({"kind": "render", "tree": t, "indent": 1, "eol": "\n", "addws": True, "salt": rnd.randrange(1000) * 4, "how": "docbody"})
        # elements whose content parsers treat specially (a line feed right after <pre> / <textarea> is dropped by a
        # parser - the renderer must still write exactly the content): sole text child, first of two, inside a block
        nd = lambda k, i, c=(), pre=(), tail=(), name=None: {"k": k, "id": i, "c": list(c), "pre": [list(x) for x in pre],
                                                             "tail": [list(x) for x in tail], "name": name}
        for name in ("pre", "textarea", "listing", "title", "code"):
            for leafk in ("T", "H"):
                for eol, pre in (("\n", [("eol", 0)]), ("\r\n", [("nl", 0)]), ("", [("nl", 0)]), ("\n", [("eol", 0), ("ind", 0)])):
                    for kk in ("I", "B"):
                        one = nd(kk, 2, [nd(leafk, 3, pre=pre)], name=name)
                        two = nd(kk, 2, [nd(leafk, 3, pre=pre), nd("I", 4, [nd("T", 5)])], name=name)
                        for sub in (one, two):
                            for root in (sub, nd("B", 1, [nd("T", 6), sub, nd("T", 7)])):
                                gens.append({"kind": "render", "tree": root, "indent": rnd.choice([0, 2]), "eol": eol, "addws": True, "salt": 1})
        return gens

    def execute(self, g):
        H = _lib()
        if g["kind"] == "objhist":
            from .. import objhist
            return objhist.execute(g, H)
        t = norm_tree(g["tree"])
        eol = g["eol"]
        import sys
        salt = g.get("salt", 0)
        late = 1 if salt % 4 == 3 else 2 if salt % 8 == 5 else 0
        group = salt % 4 == 2
        saved_hook = sys.displayhook
        sys.displayhook = lambda value: None          # `with tag:` hands the finished tag to the enclosing hook
        err = err0 = None
        try:
            # a tree of valid children that the library refuses to construct: recorded, like one it cannot render, as
            # output that is nothing but junk (with and without the metadata nodes separately)
            try:
                obj = build(t, H, salt, eol, late_meta=late, group=group)
            except (TypeError, ValueError, AttributeError, RuntimeError) as ex:
                err = "\ue00f raised " + type(ex).__name__
            try:
                obj0 = build(t, H, salt, eol, strip_meta=True, group=group)
            except (TypeError, ValueError, AttributeError, RuntimeError) as ex:
                err0 = "\ue00f raised " + type(ex).__name__
        finally:
            sys.displayhook = saved_hook
        if err or err0:
            out = err or render(obj.tagify() if group else obj, H, g["indent"], eol, g["addws"])
            out0 = err0 or render(obj0.tagify() if group else obj0, H, g["indent"], eol, g["addws"])
            return {"k": "render", "tree": t, "indent": g["indent"], "eol": eol != "", "addws": g["addws"],
                    "toks": scan(out, eol), "toks0": scan(out0, eol), "strSame": err == err0, "gen": g}
        if group:
            obj, obj0 = obj.tagify(), obj0.tagify()
        if salt % 16 == 8 and not g.get("mut"):
            # a copy used in place of the original
            import copy as _copy
            obj = _copy.deepcopy(obj)
        elif salt % 16 == 0 and not g.get("mut"):
            import pickle
            try:
                obj = pickle.loads(pickle.dumps(obj))
            except Exception:  # noqa: test objects holding lambdas cannot be pickled
                pass
        if g.get("mut"):
            # the same objects used again: render, change something through the public API, render again - what is
            # judged is the LAST rendering, against the tree as it is then (and against a fresh tree without metadata)
            import copy as _copy
            t = _copy.deepcopy(t)
            index = {}
            obj = build(t, H, salt, eol, index=index)
            fresh = max(n["id"] for n in _walk(t)) + 1
            for m in g["mut"]:
                render(obj, H, g["indent"], eol, g["addws"])
                str(obj)
                apply_mutation(t, index, m, H, salt, eol, fresh)
                fresh += 2
            out = render(obj, H, g["indent"], eol, g["addws"])
            out0 = render(build(t, H, salt, eol, strip_meta=True, index={}), H, g["indent"], eol, g["addws"])
            return {"k": "render", "tree": norm_tree(t), "indent": g["indent"], "eol": eol != "", "addws": g["addws"],
                    "toks": scan(out, eol), "toks0": scan(out0, eol), "strSame": True, "gen": g}
        if g.get("how") == "docbody":
            # the tree is the caller's own <body>, sole content of an HTMLDocument: its markup sits at indent 1
            def body_of(o):
                html = H.HTMLDocument(o).render()["html"]
                # (the LAST </body>: an element inside the tree may be called body as well)
                return html[html.index("  <body"): html.rindex("</body>") + len("</body>")]
            try:
                out, out0 = body_of(obj), body_of(obj0)
            except RuntimeError:
                return None      # a dependency whose head holds an un-expanded object cannot be hoisted: not a layout case
            return {"k": "render", "tree": t, "indent": 1, "eol": True, "addws": True,
                    "toks": scan(out, "\n"), "toks0": scan(out0, "\n"), "strSame": True, "gen": g}
        out = render(obj, H, g["indent"], eol, g["addws"])
        out0 = render(obj0, H, g["indent"], eol, g["addws"])
        # the other string views (str / repr / _repr_html_ / render) with and without the metadata nodes

        def views(o):
            try:
                return [str(o), repr(o), o._repr_html_(), o.render()["html"]]
            except Exception as ex:  # noqa
                return ["raised " + type(ex).__name__]
        return {"k": "render", "tree": t, "indent": g["indent"], "eol": eol != "", "addws": g["addws"],
                "toks": scan(out, eol), "toks0": scan(out0, eol), "strSame": views(obj) == views(obj0), "gen": g}


def _walk(t):
    yield t
    for c in t["c"]:
        yield from _walk(c)


class C05(_LayoutBase):
    id = "C05"
    design_ref = "DESIGN.md section 3, C05"
    rule = ("every ordered tree / top-level list up to the bound over {block, inline, void block, void inline, text, "
            "HTML(), _repr_html_, metadata, empty string} (TLC-enumerated, including block-inside-inline) rendered with several "
            "indent/eol/add_ws settings, plus seeded random trees up to 60 nodes and depth 8.  Non-trivial: the tree "
            "has at least one inline tag or leaf next to another node.")

    def nontrivial(self, rec):
        return size(rec["tree"]) >= 3 and has_kind(rec["tree"], ("I", "W", "T", "H", "R"))


class C06(_LayoutBase):
    id = "C06"
    design_ref = "DESIGN.md section 3, C06"
    rule = ("same trees as C05, judged against the documented line-and-indent rule (Lines/Flat); random trees also carry "
            "text that itself ends in line breaks and spaces.  Non-trivial: the tree is in scope (no inline tag "
            "contains a block tag) and contains a block tag with at least two children.")

    def nontrivial(self, rec):
        def inscope(t, inside_inline=False):
            if t["k"] in ("B", "V") and inside_inline:
                return False
            return all(inscope(c, inside_inline or t["k"] in ("I", "W")) for c in t["c"])

        def multi(t):
            return (t["k"] in ("B", "V", "L") and len(t["c"]) >= 2) or any(multi(c) for c in t["c"])
        return inscope(rec["tree"]) and multi(rec["tree"])


class C07(_LayoutBase):
    id = "C07"
    design_ref = "DESIGN.md section 3, C07"
    rule = ("same trees as C05 (metadata nodes at every subset of positions: first, last, between siblings, only child, "
            "only child of a void tag, several in a row; bare MetadataNode / HTMLDependency / head_content alternate), "
            "each rendered with and without its metadata nodes.  Non-trivial: the tree contains a metadata node.")

    def nontrivial(self, rec):
        return has_kind(rec["tree"], ("M",))
