"""C01: rendered markup parses back to the same element tree.

alpha has two halves, both written without importing anything from htmltools:
  * tokenize(): a WHATWG-style "data state" HTML tokenizer (start tags with
    attributes, self-closing flag, end tags, comments/bogus, character data
    with the five named and all numeric references decoded, script/style
    content as raw text);
  * project(): the real object that was rendered -> abstract tree
    (names, tag.attrs items in order, children).
spec/trace/ParseTrace.tla compares ElementView(tree) with the token events."""
from __future__ import annotations

import re

from ..core import Prop, cps, uncps
from .. import gamma
from .layout import _LayoutBase, names as layout_names

_NAMED = {"amp": "&", "lt": "<", "gt": ">", "quot": '"', "apos": "'"}
_WS = " \t\n\r\f"


# WHATWG "numeric character reference end state": the C1 range is remapped (windows-1252), NUL, surrogates and
# out-of-range values become U+FFFD
_C1 = {0x80: 0x20AC, 0x82: 0x201A, 0x83: 0x0192, 0x84: 0x201E, 0x85: 0x2026, 0x86: 0x2020, 0x87: 0x2021, 0x88: 0x02C6,
       0x89: 0x2030, 0x8A: 0x0160, 0x8B: 0x2039, 0x8C: 0x0152, 0x8E: 0x017D, 0x91: 0x2018, 0x92: 0x2019, 0x93: 0x201C,
       0x94: 0x201D, 0x95: 0x2022, 0x96: 0x2013, 0x97: 0x2014, 0x98: 0x02DC, 0x99: 0x2122, 0x9A: 0x0161, 0x9B: 0x203A,
       0x9C: 0x0153, 0x9E: 0x017E, 0x9F: 0x0178}


def _numref(v: int) -> str:
    if v == 0 or v > 0x10FFFF or 0xD800 <= v <= 0xDFFF:
        return "\ufffd"
    return chr(_C1.get(v, v))


def decode_refs(s: str) -> str:
    out = []
    i, n = 0, len(s)
    while i < n:
        c = s[i]
        if c == "&":
            j = s.find(";", i + 1, i + 12)
            if j != -1:
                body = s[i + 1: j]
                rep = None
                if body in _NAMED:
                    rep = _NAMED[body]
                elif body[:2] in ("#x", "#X") and len(body) > 2 and all(ch in "0123456789abcdefABCDEF" for ch in body[2:]):
                    rep = _numref(int(body[2:], 16))
                elif body[:1] == "#" and len(body) > 1 and body[1:].isascii() and body[1:].isdigit():
                    rep = _numref(int(body[1:]))
                if rep is not None:
                    out.append(rep)
                    i = j + 1
                    continue
        out.append(c)
        i += 1
    return "".join(out)


def _is_alpha(c):
    return ("a" <= c <= "z") or ("A" <= c <= "Z")


def tokenize(s: str):
    evs = []
    i, n = 0, len(s)
    text = []

    def flush():
        if text:
            evs.append({"e": "text", "name": "", "attrs": [], "t": cps(decode_refs("".join(text)))})
            text.clear()

    while i < n:
        c = s[i]
        if c != "<":
            text.append(c)
            i += 1
            continue
        if s.startswith("<!--", i):
            flush()
            j = s.find("-->", i + 4)
            evs.append({"e": "other", "name": "comment", "attrs": [], "t": []})
            i = n if j == -1 else j + 3
            continue
        if i + 1 < n and s[i + 1] in "!?":
            flush()
            j = s.find(">", i)
            kind = "doctype" if s[i:i + 9].lower() == "<!doctype" else "bogus"
            evs.append({"e": "other", "name": kind, "attrs": [], "t": []})
            i = n if j == -1 else j + 1
            continue
        if i + 2 < n and s[i + 1] == "/" and _is_alpha(s[i + 2]):
            flush()
            j = i + 2
            while j < n and s[j] not in _WS + "/>":
                j += 1
            name = s[i + 2: j]
            k = s.find(">", j)
            evs.append({"e": "end", "name": name, "attrs": [], "t": []})
            i = n if k == -1 else k + 1
            continue
        if i + 1 < n and _is_alpha(s[i + 1]):
            flush()
            j = i + 1
            while j < n and s[j] not in _WS + "/>":
                j += 1
            name = s[i + 1: j]
            attrs = []
            selfclose = False
            while True:
                while j < n and s[j] in _WS:
                    j += 1
                if j >= n:
                    break
                if s[j] == ">":
                    j += 1
                    break
                if s[j] == "/":
                    if j + 1 < n and s[j + 1] == ">":
                        selfclose = True
                        j += 2
                        break
                    j += 1
                    continue
                a0 = j
                while j < n and s[j] not in _WS + "/>=":
                    j += 1
                an = s[a0:j]
                while j < n and s[j] in _WS:
                    j += 1
                av = ""
                if j < n and s[j] == "=":
                    j += 1
                    while j < n and s[j] in _WS:
                        j += 1
                    if j < n and s[j] in "\"'":
                        q = s[j]
                        k = s.find(q, j + 1)
                        if k == -1:
                            k = n
                        av = s[j + 1: k]
                        j = k + 1
                    else:
                        v0 = j
                        while j < n and s[j] not in _WS + ">":
                            j += 1
                        av = s[v0:j]
                if an == "" and j < n and s[j] == "=":
                    an = "="
                    j += 1
                attrs.append({"n": an, "v": cps(decode_refs(av))})
            evs.append({"e": "self" if selfclose else "start", "name": name, "attrs": attrs, "t": []})
            i = j
            if not selfclose and name.lower() in ("script", "style"):
                # (ASCII case-insensitive search on the string itself: str.lower() can change the length - U+0130 -
                #  and with it every index behind such a character)
                m_end = re.compile("</" + re.escape(name), re.I | re.A).search(s, i)
                k = m_end.start() if m_end else n
                if k > i:
                    evs.append({"e": "text", "name": "", "attrs": [], "t": cps(s[i:k])})
                i = k
            continue
        text.append(c)
        i += 1
    flush()
    return evs


def project(x, H):
    """The real object -> abstract tree (metadata nodes are not part of the element tree)."""
    if isinstance(x, H.Tag):
        return {"k": "tag", "name": x.name,
                "attrs": [{"n": k, "v": cps(str(v))} for k, v in x.attrs.items()],
                "c": [p for p in (project(c, H) for c in x.children) if p is not None], "t": []}
    if isinstance(x, H.TagList):
        return {"k": "list", "name": "", "attrs": [],
                "c": [p for p in (project(c, H) for c in x) if p is not None], "t": []}
    if isinstance(x, H.MetadataNode):
        return None
    if isinstance(x, str):
        return {"k": "text", "name": "", "attrs": [], "c": [], "t": cps(x)}
    raise TypeError(type(x))


ATTR_NAMES = ["id", "class", "data-x", "aria-label", "x:y", "a.b", "A", "href", "title", "a1",
              # valid names beyond word characters (template / framework syntaxes)
              "@click", "[hidden]", "(input)", "#ref", "*ngIf", "keyup", "@keyup", "v-on:x.y", "é"]


class C01(Prop):
    observed_from_suite = ["ParseTrace"]
    id = "C01"
    trace_module = "ParseTrace"
    design_ref = "DESIGN.md section 3, C01"
    rule = ("tree shapes: every tree up to the bound enumerated by TLC (kinds block/inline/void x text/number leaves, "
            "metadata allowed) and seeded random trees to 60 nodes; names cycle through the whole catalogue, all 16 void "
            "names and custom names, with both whitespace flags; 0-3 attributes with hostile values; hostile Unicode "
            "text; several indent/eol settings.  Non-trivial: the tree has at least two elements and at least one text "
            "leaf or attribute containing a markup metacharacter.")
    assumptions = [
        "\"tokenizes as HTML\" is defined by the harness's data-state tokenizer (start/end/self-closing tags, quoted "
        "attribute values, named references amp/lt/gt/quot/apos and numeric references, script/style as raw text); it "
        "does not normalise CR, does not imply end tags and does not treat title/textarea as RCDATA",
        "script/style elements are generated childless or with text free of '<' (their text is C04's subject)",
        "eol strings consist of HTML whitespace only",
    ]

    def model_runs(self, tier):
        runs = [{"module": "Render", "cfg": f"Render_{tier}.cfg"}]
        if tier == "thorough":
            runs.append({"module": "Render", "cfg": "Render_sim.cfg", "simulate": "num=20000", "depth": 14, "export": False, "timeout": 900})
        return runs

    def nontrivial(self, rec):
        def walk(t):
            yield t
            for c in t["c"]:
                yield from walk(c)
        nodes = list(walk(rec["tree"]))
        meta = set(cps("&<>\"'"))
        hot = any(set(n["t"]) & meta for n in nodes) or any(set(a["v"]) & meta for n in nodes for a in n["attrs"])
        return sum(1 for n in nodes if n["k"] == "tag") >= 2 and hot

    # -- gamma -------------------------------------------------------------
    def concretise(self, node, H, rnd, salt):
        """gamma: returns (real object, the element tree the CALLER described) - the expectation is derived from what is
        handed to the constructors, not read back from the library's objects."""
        txt = lambda s: {"k": "text", "name": "", "attrs": [], "c": [], "t": cps(s)}
        k = node["k"]
        if k == "E":
            return "", txt("")
        if k in ("T", "H", "R"):       # leaves of the shared tree enumeration: text or number
            r = rnd.random()
            if r < 0.2:
                n = rnd.choice([0, 7, -1, 2.5, 10 ** 15, 1e-9, True, 0.0, False])
                return n, txt(str(n))
            s = rnd.choice(gamma.HOSTILE) if r < 0.7 else gamma.rand_text(rnd, rnd.choice([4, 30]))
            return s, txt(s)
        if k == "M":
            return rnd.choice([H.MetadataNode(), H.HTMLDependency("d", "1.0"), H.head_content("h")]), None
        pairs = [self.concretise(c, H, rnd, salt) for c in node["c"]]
        kids = [p[0] for p in pairs]
        exps = [p[1] for p in pairs if p[1] is not None]
        if k == "L":
            return H.TagList(*kids), {"k": "list", "name": "", "attrs": [], "c": exps, "t": []}
        nm = layout_names()
        i = node["id"]
        if k in ("V", "W"):
            name = nm["void"][(i + salt) % len(nm["void"])]
        else:
            name = nm["nonvoid"][(i * 7 + salt) % len(nm["nonvoid"])]
        if name in ("script", "style") and any(isinstance(x, (H.Tag, H.TagList)) for x in kids):
            name = "section"     # raw-text elements with element children are outside the statement
        if name in ("script", "style"):
            kids = [("a=b;" if not isinstance(x, (int, float)) else x) if isinstance(x, (str, int, float)) and not isinstance(x, H.HTML) else x
                    for x in kids]
            exps = [txt(str(x)) for x in kids if isinstance(x, (str, int, float))]
        attrs = {}
        for _ in range(rnd.choice([0, 0, 1, 2, 3])):
            v = rnd.choice(gamma.HOSTILE) if rnd.random() < 0.7 else gamma.rand_text(rnd, 12)
            if rnd.random() < 0.15:
                v = rnd.choice([True, 5, 2.5, ""])
            elif rnd.random() < 0.03:
                # long values (an implementation may take another path for long strings)
                v = rnd.choice(gamma.LONG_HOSTILE[:2] + ["q" * 300 + '"' + "r" * 10 + "'<&>\n", "w" * 255 + '"'])
            attrs[rnd.choice(ATTR_NAMES)] = v
        exp = {"k": "tag", "name": name, "attrs": [{"n": a, "v": cps("" if v is True else str(v))} for a, v in attrs.items()],
               "c": exps, "t": []}
        return H.Tag(name, attrs, *kids, _add_ws=(k in ("B", "V"))), exp

    def gens_from_export(self, lines, tier, rnd):
        gens = []
        # (thorough: 3 concretisations per enumerated shape; with 4 and the second-use variants the records grew to 1.3 GB
        #  and their validation by TLC no longer finished within its time limit)
        reps = 2 if tier == "quick" else 3
        for n, ln in enumerate(lines):
            for r in range(reps):
                # (thorough tier: one of the four repetitions of a shape also goes through a second-use variant)
                gens.append({"kind": "tree", "tree": ln["tree"], "seed": rnd.getrandbits(30), "salt": n * reps + r,
                             "variants": tier == "quick" or r == 0, "vsel": (n + r) % 4,
                             "indent": rnd.choice([0, 0, 1, 3]), "eol": rnd.choice(["\n", "\n", "", "\r\n", " ", "\t"])})
        return gens

    def gens_random(self, tier, rnd):
        gens = []
        lb = _LayoutBase()
        for j in range(500 if tier == "quick" else 10000):
            t = lb.rand_tree(rnd, rnd.choice([8, 20, 60]), rnd.choice([3, 5, 8]))
            gens.append({"kind": "tree", "tree": t, "seed": rnd.getrandbits(30), "salt": rnd.randrange(5000),
                         "indent": rnd.randint(0, 5), "eol": rnd.choice(["\n", "", "\r\n", " ", "\t", "\n\n"])})
        # every catalogue name, both flags, with text and a child
        cat = gamma.catalogue()
        allnames = sorted(set(cat["tags"]) | set(cat["svg"])) + ["my-el", "x:y", "Custom.El"]
        for nm in allnames:
            for ws in (True, False):
                gens.append({"kind": "named", "name": nm, "ws": ws, "seed": rnd.getrandbits(30)})
        # the object-history machine (spec/ObjOps.tla): a tree that has a history renders like a fresh one
        from .. import objhist
        gens += objhist.gens(rnd, 120 if tier == "quick" else 2500, 1)
        return gens

    def execute(self, g):
        import random
        import htmltools as H
        if g["kind"] == "objhist":
            from .. import objhist
            return objhist.execute(g, H)
        rnd = random.Random(g["seed"])
        if g["kind"] == "tree":
            obj, described = self.concretise(g["tree"], H, rnd, g["salt"])
            out = obj.get_html_string(g["indent"], g["eol"])
            recs = [{"tree": described, "events": tokenize(out), "gen": g}]
            if not g.get("variants", True):
                return recs
            vsel = g.get("vsel", g["salt"] % 4)
            if vsel == 0 and isinstance(obj, H.Tag) and described["attrs"]:
                # the SAME object rendered again after one of its attributes went away (item deletion / pop / the
                # class helper): the markup follows the tree as it is now
                import copy as _copy
                d2 = _copy.deepcopy(described)
                names = [a["n"] for a in d2["attrs"]]
                victim = names[g["salt"] // 4 % len(names)]
                how = g["salt"] // 4 % 3
                if victim == "class" and uncps(d2["attrs"][names.index("class")]["v"]).split() == ["k"]:
                    obj.remove_class("k")
                elif how == 0:
                    del obj.attrs[victim]
                elif how == 1:
                    obj.attrs.pop(victim)
                else:
                    obj.attrs.pop(victim, None)
                d2["attrs"] = [a for a in d2["attrs"] if a["n"] != victim]
                out2 = obj.get_html_string(g["indent"], g["eol"])
                recs.append({"tree": d2, "events": tokenize(out2), "gen": dict(g, second=True)})
            txt = lambda s: {"k": "text", "name": "", "attrs": [], "c": [], "t": cps(s)}
            if vsel == 1 and isinstance(obj, H.Tag) and obj.name not in ("script", "style") and not (
                    obj.name in gamma.VOID_NAMES and not described["c"]):
                # a rendering that FAILED (an un-expanded object among the children), the tree repaired in place, the same
                # objects rendered again: an ordinary tree, whatever happened before
                obj.append(gamma.Tfy(lambda: "never expanded"))
                try:
                    obj.get_html_string(g["indent"], g["eol"])
                    failed = False
                except RuntimeError:
                    failed = True
                obj.children.pop()
                if failed:
                    recs.append({"tree": described, "events": tokenize(obj.get_html_string(g["indent"], g["eol"])), "gen": dict(g, second="repaired")})
            elif vsel == 2 and isinstance(obj, H.Tag):
                # an element built from a lone TagList does not become an alias of that list
                lst = H.TagList(obj, "kept <&>")
                w = H.Tag("section", lst, {"id": "w"})
                w2 = H.tags.article(w.children)
                lst.append("later 1")
                w.append("own <text>")
                w2.insert(0, "only in w2")
                dw = {"k": "tag", "name": "section", "attrs": [{"n": "id", "v": cps("w")}],
                      "c": [described, txt("kept <&>"), txt("own <text>")], "t": []}
                recs.append({"tree": dw, "events": tokenize(w.get_html_string(g["indent"], g["eol"])), "gen": dict(g, second="lent")})
            elif isinstance(obj, H.TagList) and len(obj) and any(isinstance(c_, H.Tag) and c_.name not in ("script", "style") for c_ in obj):
                # a top-level list rendered (through str(), which works on a copy), one of the tags it HOLDS changed through
                # the caller's own reference, the list rendered again
                import copy as _copy
                d4 = _copy.deepcopy(described)
                j = [j_ for j_, c_ in enumerate(obj) if isinstance(c_, H.Tag) and c_.name not in ("script", "style")][0]
                held = obj[j]
                str(obj)
                obj.render()
                held.append("held <&> changed")
                held.attrs["data-late"] = "1"
                dj = [c_ for c_ in d4["c"]][sum(1 for c_ in list(obj)[:j] if not isinstance(c_, H.MetadataNode))]
                dj["c"] = dj["c"] + [txt("held <&> changed")]
                dj["attrs"] = dj["attrs"] + [{"n": "data-late", "v": cps("1")}]
                recs.append({"tree": d4, "events": tokenize(obj.get_html_string(g["indent"], g["eol"])), "gen": dict(g, second="held")})
            elif vsel == 3 and isinstance(obj, H.Tag) and obj.name not in ("script", "style"):
                import copy as _copy
                d3 = _copy.deepcopy(described)
                str(obj)
                obj.append("added <&> later")
                obj.insert(0, H.tags.b("first"))
                d3["c"] = [{"k": "tag", "name": "b", "attrs": [], "c": [txt("first")], "t": []}] + d3["c"] + [txt("added <&> later")]
                recs.append({"tree": d3, "events": tokenize(obj.get_html_string(g["indent"], g["eol"])), "gen": dict(g, second="grown")})
            return recs
        else:
            nm = g["name"]
            raw = nm in ("script", "style")
            leaf = "a=b; x<y && z>0" if raw else rnd.choice(gamma.HOSTILE)
            title = rnd.choice(gamma.HOSTILE)
            T = lambda s: {"k": "text", "name": "", "attrs": [], "c": [], "t": cps(s)}
            E = lambda name, attrs, c: {"k": "tag", "name": name, "attrs": [{"n": a, "v": cps(v)} for a, v in attrs], "c": c, "t": []}
            inner = H.Tag(nm, leaf, {"title": title}, _add_ws=g["ws"])
            empty = H.Tag(nm, _add_ws=g["ws"])
            if raw:
                obj = H.tags.div(inner, empty, H.Tag(nm, id="x"), "tail <&>")
                third = E(nm, [("id", "x")], [])
            else:
                obj = H.tags.div(inner, empty, H.Tag(nm, H.tags.span("k"), "t&t", id="x"), "tail <&>")
                third = E(nm, [("id", "x")], [E("span", [], [T("k")]), T("t&t")])
            described = E("div", [], [E(nm, [("title", title)], [T(leaf)]), E(nm, [], []), third, T("tail <&>")])
            out = obj.get_html_string()
            recs = [{"tree": described, "events": tokenize(out), "gen": g}]
            # what was put into one element, read back from it and put into another element, is still what it was:
            # the text of a <script>/<style> moved into an ordinary element is plain text there (and the other way round)
            other = "pre" if raw else "code"
            moved = H.Tag(other, inner.children, H.TagList(*inner.children)[0], id="m")
            recs.append({"tree": E(other, [("id", "m")], [T(leaf), T(leaf)]), "events": tokenize(moved.get_html_string()),
                         "gen": dict(g, second="moved")})
            renamed = H.Tag(nm, leaf, "<&> more")
            renamed.get_html_string()
            renamed.name = "section"
            recs.append({"tree": E("section", [], [T(leaf), T("<&> more")]), "events": tokenize(renamed.get_html_string()),
                         "gen": dict(g, second="renamed")})
            return recs
        tree = project(obj, H)
        return {"tree": tree, "events": tokenize(out), "gen": g}
