"""C08 (purity, independence of tagify results, consistency of views, ==) and
C09 (tagifiable objects render as their expansion).  Histories of the system
specification (spec/HtmlTools.tla) are replayed on real objects; after every
step the whole object graph reachable from the caller's variables is projected
into the heap form of spec/HeapOps.tla; spec/trace/HeapTrace.tla judges."""
from __future__ import annotations

import copy
import hashlib
import os
import shutil
import tempfile

from ..core import Prop
from .. import gamma


# ---------------------------------------------------------------------------
# gamma: abstract tree (f-forms of MC_HtmlTools) -> real objects
# ---------------------------------------------------------------------------
class XTfy:
    """Tagifiable whose expansion is built from `content` at every call."""

    def __init__(self, mode, content, H):
        self.mode, self.content, self._H = mode, content, H

    def tagify(self):
        H = self._H
        if self.mode == "raise":
            raise ValueError("this component cannot be expanded")
        if self.mode == "list":
            return self.content.tagify()
        if self.mode == "tag":
            return H.Tag("x", self.content.tagify(), _add_ws=False)
        item = self.content.tagify()[0]          # str / HTML / dependency (a fresh copy)
        return item


_TAGFRAG = {}


def tagfrag_class(H):
    """A tagifiable object that is itself a Tag (a wrapper-less "fragment" component): tagify() returns a TagList."""
    if H not in _TAGFRAG:
        class TagFrag(H.Tag):
            _verif_tfy = True

            def __init__(self, content):
                super().__init__("frag")
                self.content, self.mode = content, "listT"

            def tagify(self):
                return self.content.tagify()
        _TAGFRAG[H] = TagFrag
    return _TAGFRAG[H]


def build(tr, H, expanded=False):
    """Returns a list of real children (lists are how spliced expansions are returned)."""
    f = tr["f"]
    if f == "S":
        return [tr["v"]]
    if f == "H":
        return [H.HTML(tr["v"])]
    if f == "M":
        return [H.MetadataNode()]
    if f == "D":
        name, ver = tr["name"].split("@")
        if name in ("e", "g"):
            return [H.HTMLDependency(name, ver, source={"subdir": "lib src"}, script=[{"src": "a b.js"}, {"src": "c.js", "defer": ""}],
                                     stylesheet={"href": "s t.css"}, meta={"name": "m", "content": "c"}, head=H.tags.title("h"),
                                     all_files=(name == "g"))]
        if name == "n":
            # no source location: nothing to prefix, but item paths still get URL-quoted on the way out
            return [H.HTMLDependency(name, ver, script=[{"src": "my widget.js"}], stylesheet={"href": "a%b é.css"})]
        if name == "h":
            # a source directory spelled in a non-normalised way: whatever a method makes of it, the object keeps its spelling
            return [H.HTMLDependency(name, ver, source={"subdir": "lib src/./sub/.."}, script={"src": "x.js"})]
        if tr.get("v"):
            # same name and version, another value (its script): a different dependency
            return [H.HTMLDependency(name, ver, script={"src": tr["v"] + ".js"})]
        return [H.HTMLDependency(name, ver)]
    if f == "R":
        return [gamma.ReprObj("<r/>")]
    kids = [x for k in tr["kids"] for x in build(k, H, expanded)]
    if f == "T":
        attrs = dict(a.split("=", 1) for a in tr["attrs"])
        return [H.Tag(tr["name"], attrs, *kids, _add_ws=tr["ws"])]
    if f == "L":
        return [H.TagList(*kids)]
    if f == "F":
        if not expanded:
            if tr["mode"] == "listT":
                return [tagfrag_class(H)(H.TagList(*kids))]
            return [XTfy(tr["mode"], H.TagList(*kids), H)]
        if tr["mode"] == "tag":
            return [H.Tag("x", *kids, _add_ws=False)]
        return kids
    if f == "DOC":
        args = dict(a.split("=", 1) for a in tr["attrs"])
        return [H.HTMLDocument(*kids, **args)]
    raise ValueError(f)


# ---------------------------------------------------------------------------
# alpha: the object graph -> heap of spec/HeapOps.tla
# ---------------------------------------------------------------------------
class Proj:
    def __init__(self, H):
        self.H = H
        self.ids = {}
        self.keep = []
        self.heap = []

    def oid(self, o):
        k = id(o)
        if k not in self.ids:
            self.ids[k] = len(self.ids) + 1
            self.keep.append(o)          # keep alive: CPython must not reuse the id()
            self.heap.append(None)
        return self.ids[k]

    @staticmethod
    def obj(t, name="", ws=False, a=0, k=0, items=()):
        return {"t": t, "name": name, "ws": bool(ws), "a": a, "k": k, "items": list(items)}

    def ref(self, o, seen):
        H = self.H
        if isinstance(o, H.HTML):
            return {"r": "html", "v": o.as_string(), "n": 0}
        if isinstance(o, str):
            return {"r": "str", "v": o, "n": 0}
        return {"r": "id", "v": "", "n": self.visit(o, seen)}

    def attrs_obj(self, d, seen):
        n = self.oid(d)
        if n in seen:
            return n
        seen.add(n)
        items = []
        for k, v in d.items():
            if isinstance(v, (str, int, float, bool, type(None))) or isinstance(v, self.H.HTML):
                items.append({"r": "kv", "v": f"{k}={v}", "n": int(isinstance(v, self.H.HTML))})
            else:
                r = self.ref(v, seen)
                items.append({"r": "kv", "v": f"{k}=", "n": 0})
                items.append(r)
        self.heap[n - 1] = self.obj("attrs", items=items)
        return n

    def list_obj(self, lst, seen):
        n = self.oid(lst)
        if n in seen:
            return n
        seen.add(n)
        self.heap[n - 1] = self.obj("list", items=[self.ref(c, seen) for c in list(lst)])
        return n

    def visit(self, o, seen):
        H = self.H
        n = self.oid(o)
        if n in seen:
            return n
        seen.add(n)
        if getattr(o, "_verif_tfy", False):
            k = self.list_obj(o.content, seen)
            self.heap[n - 1] = self.obj("tfy", o.mode, k=k)
        elif isinstance(o, H.Tag):
            k = self.list_obj(o.children, seen)
            a = self.attrs_obj(o.attrs, seen)
            self.heap[n - 1] = self.obj("tag", o.name, o.add_ws, a, k)
        elif isinstance(o, H.TagList):
            seen.discard(n)
            return self.list_obj(o, seen)
        elif isinstance(o, H.HTMLDependency):
            k = self.list_obj(o.head, seen) if o.head is not None else 0
            # the value of a dependency: name, version and (as a digest) source / script / stylesheet / meta / all_files,
            # so that an in-place rewrite of its item dicts (e.g. by as_dict) shows as a structural change
            import json as _json
            val = digest(_json.dumps([o.source, o.script, o.stylesheet, o.meta, o.all_files], sort_keys=True, default=str))
            self.heap[n - 1] = self.obj("dep", f"{o.name}@{o.version}#{val[:8]}", k=k)
        elif isinstance(o, H.MetadataNode):
            self.heap[n - 1] = self.obj("meta")
        elif isinstance(o, XTfy):
            k = self.list_obj(o.content, seen)
            self.heap[n - 1] = self.obj("tfy", o.mode, k=k)
        elif isinstance(o, H.HTMLDocument):
            content = [v for v in vars(o).values() if isinstance(v, H.TagList)][0]
            args = [v for v in vars(o).values() if isinstance(v, dict)][0]
            k = self.list_obj(content, seen)
            a = self.attrs_obj(args, seen)
            self.heap[n - 1] = self.obj("doc", k=k, a=a)
        elif hasattr(o, "_repr_html_"):
            self.heap[n - 1] = self.obj("repr")
        else:
            self.heap[n - 1] = self.obj("other:" + type(o).__name__)
        return n

    def snapshot(self, roots):
        seen = set()
        rs = [self.visit(r, seen) for r in roots]
        import json
        return json.loads(json.dumps(self.heap)), rs


def objects_of(root, kind, H):
    """Objects of a kind in root's tree, in pre-order (tag, its list, its attrs, children)."""
    out = []

    def walk(o):
        if getattr(o, "_verif_tfy", False):
            walk(o.content)
        elif isinstance(o, H.Tag):
            if kind == "tag":
                out.append(o)
            if kind == "list":
                out.append(o.children)
            if kind == "attrs":
                out.append(o.attrs)
            for c in o.children:
                walk(c)
        elif isinstance(o, H.TagList):
            if kind == "list":
                out.append(o)
            for c in o:
                walk(c)
        elif isinstance(o, XTfy) or getattr(o, "_verif_tfy", False):
            # the one-item content of a str/HTML/dependency-valued tagifiable is not a mutation target
            # (its tagify() returns that single item: more or fewer items would be a malformed test object)
            if o.mode in ("list", "tag", "listT"):
                walk(o.content)
        elif isinstance(o, H.HTMLDocument):
            walk([v for v in vars(o).values() if isinstance(v, H.TagList)][0])
    walk(root)
    return out


def digest(x) -> str:
    return hashlib.sha1(repr(x).encode("utf-8", "surrogatepass")).hexdigest()[:16]


RO_OPS = ["render", "str", "repr", "repr_html", "get_html_string", "get_dependencies", "docrender", "save_html",
          "copy", "dep_methods", "views", "rawstring", "tagify_ro", "expanded"]


def run_history(tree, hist, H, seed):
    import random
    rnd = random.Random(seed)
    x = build(tree, H)[0]
    roots = [x]
    p = Proj(H)
    heap0, roots0 = p.snapshot(roots)
    events = []
    tmp = None
    ro_i = 0
    for h in hist:
        act, i = h["act"], h["i"] - 1
        if i >= len(roots):
            continue
        r = roots[i]
        ev = {"op": act, "ro": False, "root": i + 1, "newroot": 0, "via": 0, "res": "", "eq": True, "arg": h.get("op", "")}
        try:
            if act == "Tagify":
                if not hasattr(r, "tagify"):
                    continue
                y = r.tagify()
                roots.append(y)
                ev.update(op="tagify", ro=True)
                ev["eq"] = bool(r == y)
                ev["res"] = ""
            elif act == "CopyTag":
                c = copy.copy(r)
                roots.append(c)
                ev.update(op="copy", ro=True)
            elif act == "ReadOnly":
                op = h.get("op") or RO_OPS[ro_i % len(RO_OPS)]
                ro_i += 1
                ev.update(op=op, ro=True, arg=op)
                is_doc = isinstance(r, H.HTMLDocument)
                try:
                    if op == "render" or is_doc and op in ("str", "repr", "repr_html", "get_html_string", "views", "rawstring", "tagify_ro", "expanded", "get_dependencies"):
                        res = r.render()
                        ev["op"] = "render"
                        ev["res"] = digest((res["html"], [(d.name, str(d.version)) for d in res["dependencies"]]))
                    elif op == "str":
                        ev["res"] = digest(str(r))
                    elif op == "repr":
                        ev["res"] = digest(repr(r))
                    elif op == "repr_html":
                        ev["res"] = digest(r._repr_html_())
                    elif op == "get_html_string":
                        try:
                            ev["res"] = digest(r.get_html_string())
                        except RuntimeError:
                            ev["res"] = "RuntimeError"
                    elif op == "get_dependencies":
                        ev["res"] = digest([(d.name, str(d.version)) for d in r.get_dependencies()])
                    elif op == "docrender":
                        d = r if is_doc else H.HTMLDocument(r, lang="en")
                        res = d.render(lib_prefix="libx", include_version=False)
                        ev["res"] = digest(res["html"])
                    elif op == "save_html":
                        tmp = tmp or tempfile.mkdtemp(prefix="verif-c08-")
                        f = os.path.join(tmp, "out.html")
                        r.save_html(f)
                        ev["res"] = digest(open(f).read())
                    elif op == "copy":
                        copy.copy(r)
                    elif op == "dep_methods":
                        # on the dependency objects held by the tree itself (dedup=False returns them, not copies)
                        own = [] if is_doc else r.get_dependencies(dedup=False)
                        for d in own + r.render()["dependencies"]:
                            d.as_html_tags(lib_prefix="L"); d.as_dict(lib_prefix="L", include_version=False); d.source_path_map()
                            d.serialize_to_script_json(indent=2); str(d); repr(d)
                            # (what a caller does to the RETURNED values afterwards is outside the statement: on the unchanged
                            #  code as_dict()["meta"] is the dependency's own list - DESIGN.md 9.3)
                    elif op == "views":
                        a, b, c, d = str(r), repr(r), r._repr_html_(), r.render()["html"]
                        ev["eq"] = bool(a == b == c == d)
                        ev["res"] = digest(a)
                    elif op == "rawstring":
                        has_tfy = any(True for _ in _tfys(r, H))
                        try:
                            r.get_html_string()
                            raised = False
                        except RuntimeError:
                            raised = True
                        ev["eq"] = bool(raised == has_tfy)
                    elif op == "tagify_ro":
                        y = r.tagify()
                        ev["res"] = ""
                    elif op == "expanded":
                        pass
                except Exception as ex:  # noqa
                    ev["res"] = "EXC:" + type(ex).__name__
            elif act.startswith("Mut"):
                targets = objects_of(r, h["kind"], H)
                if not targets:
                    continue
                t = targets[(h["ord"] - 1) % len(targets)]
                ev.update(op="mutate", via=i + 1)
                if act == "MutAttr" and rnd.random() < 0.4 and any(isinstance(v_, H.HTML) for v_ in t.values()):
                    k_ = [k_ for k_, v_ in t.items() if isinstance(v_, H.HTML)][0]
                    t[k_] += " more"
                elif act == "MutAppend":
                    htmls = [j_ for j_, c_ in enumerate(t) if isinstance(c_, H.HTML)]
                    if htmls and rnd.random() < 0.5:
                        # `+=` on an HTML() child: an operator on the element, which is then stored back into the list
                        j_ = rnd.choice(htmls)
                        t[j_] += rnd.choice(["<more>", H.HTML("<u>m</u>")])
                    else:
                        t.append(rnd.choice(["new", H.tags.b("n"), ["n1", None, "n2"]]))
                elif act == "MutAttr":
                    rnd.choice([lambda: t.update(z="1"), lambda: t.__setitem__("class", "k"), lambda: t.update({"id": "q"}, id="r")])()
                elif act == "MutName":
                    if rnd.random() < 0.5:
                        t.name = "renamed"
                    else:
                        t.add_class("zz").add_style("a:b;")
                        t.insert(0, "ins")
                elif act == "MutDrop":
                    if len(t):
                        t.pop(0)
                    else:
                        continue
        except Exception as ex:  # noqa
            ev["res"] = "EXC:" + type(ex).__name__
        heap, rs = p.snapshot(roots)
        ev["heap"], ev["roots"] = heap, rs
        if act == "Tagify":
            ev["newroot"] = rs[-1]
        events.append(ev)
    if tmp:
        shutil.rmtree(tmp, ignore_errors=True)
    return {"k": "hist", "heap0": heap0, "roots0": roots0, "events": events}


def _tfys(o, H):
    """un-expanded objects that are NOT also self-rendering (a Tag subclass renders itself: the error clause exempts it)"""
    if isinstance(o, XTfy):
        yield o
        return
    if getattr(o, "_verif_tfy", False):
        return          # renders itself (it is a Tag); what it would expand to is not part of the markup yet
    if isinstance(o, H.Tag):
        for c in o.children:
            yield from _tfys(c, H)
    elif isinstance(o, H.TagList):
        for c in o:
            yield from _tfys(c, H)


def expansion_record(tree, H):
    """C09: x (with tagifiable objects) against the tree gamma builds with every
    tagifiable replaced by its expansion; both projected into one heap."""
    x = build(tree, H)[0]
    xe = build(tree, H, expanded=True)
    xe = xe[0] if len(xe) == 1 and isinstance(xe[0], (H.Tag, H.TagList, H.HTMLDocument)) else H.TagList(*xe)
    p = Proj(H)
    heap0, roots0 = p.snapshot([x])
    ev = {"op": "expanded", "ro": True, "root": 1, "newroot": 0, "via": 0, "res": "", "eq": True, "arg": ""}
    try:
        rx = x.render()
        if isinstance(xe, H.HTMLDocument):
            re_ = xe.render()
        else:
            re_ = {"html": xe.get_html_string(), "dependencies": xe.get_dependencies()}
        ev["eq"] = bool(rx["html"] == re_["html"])
        ev["eqdeps"] = bool([(d.name, str(d.version)) for d in rx["dependencies"]] ==
                            [(d.name, str(d.version)) for d in re_["dependencies"]])
        if not isinstance(x, H.HTMLDocument):
            def same_doc(wrap):
                a, b = H.HTMLDocument(wrap(x), lang="en").render(), H.HTMLDocument(wrap(xe), lang="en").render()
                return a["html"] == b["html"] and [(d.name, str(d.version)) for d in a["dependencies"]] == \
                    [(d.name, str(d.version)) for d in b["dependencies"]]
            # as a fragment, as the sole <body>, inside a sole <html> (the three shapes HTMLDocument distinguishes)
            ev["eqdoc"] = bool(same_doc(lambda t: t) and same_doc(lambda t: H.tags.body(t, id="b"))
                               and same_doc(lambda t: H.tags.html(H.tags.head(H.tags.title("t")), H.tags.body(t))))
        else:
            ev["eqdoc"] = True
    except Exception as ex:  # noqa
        ev["eq"], ev["eqdeps"], ev["eqdoc"] = False, False, False
        ev["res"] = "EXC:" + type(ex).__name__
    heap, rs = p.snapshot([x, xe])
    ev["heap"], ev["roots"], ev["newroot"] = heap, rs, rs[1]
    return {"k": "expand", "heap0": heap0, "roots0": roots0, "events": [ev]}


# ---------------------------------------------------------------------------
def rand_tree(rnd, maxnodes, with_tfy=True, depth=0, counter=None, root=True):
    counter = counter if counter is not None else [0]
    counter[0] += 1
    r = rnd.random()
    if root:
        kind = "T"
    elif depth >= 4 or counter[0] >= maxnodes:
        kind = rnd.choice("SSHMDR")
    else:
        kind = rnd.choice("TTTTSSHMDRFFF" if with_tfy else "TTTTSSHMDR")
    if kind == "S":
        return {"f": "S", "v": rnd.choice(["s", "t", "<&>", "", "u "])}
    if kind == "H":
        return {"f": "H", "v": rnd.choice(["<b>h</b>", "&amp;"])}
    if kind == "M":
        return {"f": "M"}
    if kind == "D":
        return {"f": "D", "name": rnd.choice(["d@1.0", "d@1.10", "e@2", "f@0.1", "n@1", "g@3", "h@1.0"])}
    if kind == "R":
        return {"f": "R"}
    kids = []
    for _ in range(rnd.randint(0, 4)):
        if counter[0] >= maxnodes:
            break
        kids.append(rand_tree(rnd, maxnodes, with_tfy, depth + 1, counter, False))
    if kind == "F":
        mode = rnd.choice(["list", "list", "listT", "tag", "str", "html", "dep"])
        if mode == "str":
            kids = [{"f": "S", "v": rnd.choice(["w", "w", ""])}]
        elif mode == "html":
            kids = [{"f": "H", "v": rnd.choice(["<i>e</i>", "<i>e</i>", ""])}]
        elif mode == "dep":
            kids = [{"f": "D", "name": "g@3"}]
        return {"f": "F", "mode": mode, "kids": kids}
    name = rnd.choice(["div", "span", "p", "b", "html", "body", "head", "ul", "br", "script", "style"]) if not root else rnd.choice(["div", "span", "html", "body", "section"])
    attrs = [f"{rnd.choice(['a', 'class', 'id', 'lang'])}={rnd.choice(['1', 'x y', ''])}" for _ in range(rnd.choice([0, 0, 1, 2]))]
    attrs = list(dict(a.split("=", 1) for a in attrs).items())
    return {"f": "T", "name": name, "ws": rnd.random() < 0.6, "attrs": [f"{k}={v}" for k, v in attrs], "kids": kids}


def norm_tree(t):
    """Fill in the fields TLC's JSON export omits for forms that lack them."""
    out = {"f": t["f"], "name": t.get("name", ""), "ws": bool(t.get("ws", False)), "attrs": list(t.get("attrs", [])),
           "v": t.get("v", ""), "mode": t.get("mode", ""), "kids": [norm_tree(k) for k in t.get("kids", [])]}
    return out


class _Base(Prop):
    trace_module = "HeapTrace"

    def model_runs(self, tier):
        if tier == "quick":
            return [{"module": "MC_HtmlTools", "cfg": "HtmlTools_quick.cfg"},
                    {"module": "ObjHist", "cfg": "ObjHist_quick.cfg", "export": False}]
        return [{"module": "MC_HtmlTools", "cfg": "HtmlTools_thorough.cfg", "export": False},
                {"module": "ObjHist", "cfg": "ObjHist_thorough.cfg", "export": False},
                {"module": "MC_HtmlTools", "cfg": "HtmlTools_thorough_gen.cfg"},
                {"module": "MC_HtmlTools", "cfg": "HtmlTools_sim.cfg", "simulate": "num=2000", "depth": 10, "export": False, "timeout": 900}]

    def execute(self, g):
        import htmltools as H
        if g["kind"] == "jsx":
            from . import jsxprop
            recs = jsxprop.C20().execute({"kind": "conv", "tree": g["tree"], "salt": g.get("salt", 0)})
            recs = [r for r in recs if r.get("k") == "hist"]
            for r in recs:
                r["gen"] = g
                r.pop("_module", None)
            return recs
        if g["kind"] == "objhist":
            from .. import objhist
            return objhist.execute(g, H)
        if g["kind"] == "scenario":
            return scenario_record(g, H)
        if g["kind"] == "hist":
            rec = run_history(norm_tree(g["tree"]), g["hist"], H, g.get("seed", 0))
        elif g["kind"] == "expand":
            rec = expansion_record(norm_tree(g["tree"]), H)
        elif g["kind"] == "eq":
            rec = eq_record(g, H)
        else:
            raise ValueError(g["kind"])
        rec["gen"] = g
        return rec


def scenario_record(g, H):
    """Directed scenarios for C09, each a boolean observation whose expected value is TRUE."""
    name = g["name"]
    obs = lambda nm, holds: {"k": "obs", "p": "C09", "name": nm, "holds": bool(holds), "gen": g}
    dep = lambda n: H.HTMLDependency(n, "1.0", source={"href": "https://x/" + n}, script={"src": n + ".js"})
    if name == "head_content":
        # a tagifiable (and self-rendering) object handed to head_content(): HTMLDocument hoists it into <head>, where it
        # must appear as its expansion, with the dependencies the expansion carries
        Frag = tagfrag_class(H)
        payload = ["in head <&>", H.tags.meta(name="k", content=g.get("v", "v")), dep("carried")][: 1 + g.get("n", 2)]
        frag = Frag(H.TagList(*payload))
        hc = H.head_content(frag)
        expanded = H.HTMLDependency(hc.name, str(hc.version), head=H.TagList(*payload))
        got = H.HTMLDocument(H.tags.div("c", hc, dep("other"))).render()
        want = H.HTMLDocument(H.tags.div("c", expanded, dep("other"))).render()
        return obs("HTMLDocumentRenderExpandsTheSameWay",
                   got["html"] == want["html"] and [d.name for d in got["dependencies"]] == [d.name for d in want["dependencies"]])
    if name in ("append_after_tagify", "doc_rerender_after_growth"):
        class Badge:
            def __init__(self, label, selfrendering):
                self.label = label
                if selfrendering:
                    self._repr_html_ = lambda: "<i>unexpanded " + label + "</i>"

            def tagify(self):
                return H.TagList(H.tags.b(self.label), dep("badge-" + self.label))
        badge = Badge("w%d" % g.get("n", 0), g.get("n", 0) % 2 == 0)
        want_html, want_dep = "<b>" + badge.label + "</b>", "badge-" + badge.label
        tree = H.tags.div(H.tags.p("a", H.tags.span("deep")), H.tags.span("b"), dep("already"))
        if name == "append_after_tagify":
            # a tagified tree is an ordinary tree: what is added to it afterwards (at any depth) is expanded when asked
            t = tree.tagify()
            target = t.children[0] if g.get("n", 0) % 3 else t.children[0].children[1]
            target.append(badge)
            outs = [t.render(), H.TagList(t).render(), H.HTMLDocument(t).render(), t.tagify().render()]
        else:
            # a document that was rendered before the tree it holds grew (through the tree's own methods)
            doc = H.HTMLDocument(tree, lang="en")
            doc.render()
            (tree.children[0] if g.get("n", 0) % 3 else tree).append(badge)
            outs = [doc.render(), doc.render(lib_prefix="x")]
        ok = all(want_html in o["html"] and "unexpanded" not in o["html"] and want_dep in [d.name for d in o["dependencies"]] for o in outs)
        return obs("RenderProducesWhatTheExpandedTreeProduces" if name == "append_after_tagify" else "HTMLDocumentRenderExpandsTheSameWay", ok)
    if name == "cached_head_component":
        # a component directly under the caller's <html> that hands back the SAME <head> tag every time: what the document
        # puts into <head> never ends up in the component's own tag
        cached = H.tags.head(H.tags.title("from component"))

        class HeadComp:
            def tagify(self):
                return cached
        page = H.tags.html(HeadComp(), H.tags.body("b", dep("d1")))
        want_tree = H.tags.html(H.tags.head(H.tags.title("from component")), H.tags.body("b", dep("d1")))
        want_doc = H.HTMLDocument(H.tags.html(H.tags.head(H.tags.title("from component")), H.tags.body("b", dep("d1")))).render()["html"]
        doc = H.HTMLDocument(page)
        r1 = doc.render()["html"]
        t1 = page.render()["html"]
        r2 = doc.render()["html"]
        return obs("HTMLDocumentRenderExpandsTheSameWay", r1 == want_doc and r2 == want_doc and t1 == want_tree.render()["html"]
                   and str(cached) == str(H.tags.head(H.tags.title("from component"))))
    if name == "raise_then_ready":
        # a component that cannot expand yet: the failure leaves the tree as it was; once the component is ready the very
        # same tree renders its expansion
        class Late:
            ready = False

            def tagify(self):
                if not self.ready:
                    raise ValueError("not ready")
                return H.TagList(H.tags.b("late"), dep("late-dep"))
        w = Late()
        shapes_ = [H.tags.div(w, id="x"), H.tags.div("a", H.tags.p(H.tags.span(w)), "z"), H.TagList("t", H.tags.div(w)),
                   H.tags.div(H.tags.i("first"), w)]
        tree = shapes_[g.get("n", 0) % len(shapes_)]
        docs = [tree, H.HTMLDocument(tree)][g.get("n", 0) // len(shapes_) % 2]
        try:
            docs.render()
            failed = False
        except ValueError:
            failed = True
        w.ready = True
        out = docs.render()
        return obs("RenderProducesWhatTheExpandedTreeProduces",
                   failed and "<b>late</b>" in out["html"] and "late-dep" in [d.name for d in out["dependencies"]]
                   and ("first" in out["html"]) == (g.get("n", 0) % len(shapes_) == 3))
    if name == "per_instance":
        # whether an object is tagifiable is a property of THAT object: an instance that got its tagify() per instance
        # expands, whatever other instances of its class did before in this process
        class Widget:
            def __init__(self, label, tfy):
                self.label = label
                if tfy:
                    self.tagify = lambda: H.TagList(H.tags.b(label), dep("w" + label))

            def _repr_html_(self):
                return "<i>static " + self.label + "</i>"
        first = H.tags.div(Widget("a", g["first_tfy"])).render()
        second = H.tags.div("x", Widget("b", not g["first_tfy"]), Widget("c", True)).render()
        want_b = "<b>b</b>" if not g["first_tfy"] else "<i>static b</i>"
        return obs("RenderProducesWhatTheExpandedTreeProduces",
                   want_b in second["html"] and "<b>c</b>" in second["html"] and "wc" in [d.name for d in second["dependencies"]]
                   and (("<b>a</b>" in first["html"]) == g["first_tfy"]))
    raise ValueError(name)


def eq_record(g, H):
    a, b = norm_tree(g["a"]), norm_tree(g["b"])

    def mk(t):
        if t["f"] == "X":
            import collections
            import types
            kind = t["v"]
            if kind == "userlist":
                return collections.UserList(["a", H.tags.span("b")])
            if kind == "list":
                return ["a", H.tags.span("b")]
            if kind == "tuple":
                return ("a", H.tags.span("b"))
            if kind == "namespace":
                d = H.HTMLDependency("d", "1.0")
                return types.SimpleNamespace(**vars(d))
            if kind == "str":
                return "<div></div>"
            if kind == "dict":
                return {"name": "div"}
            return object()
        if t["f"] == "D":
            name, ver = t["name"].split("@")
            return H.HTMLDependency(name, ver, head=t["v"] or None)
        xs = build(t, H)
        return xs[0]
    ra, rb = mk(a), mk(b)
    if g.get("renamed") and isinstance(ra, H.Tag) and isinstance(rb, H.Tag):
        # built under another name (also a raw-text or a void one) and renamed through the public attribute: what counts
        # is what the tag is now
        first = g["renamed"]
        fa = H.Tag(first, *ra.children, _add_ws=ra.add_ws)
        fa.attrs.update(ra.attrs)
        fa.get_html_string() if not any(True for _ in _tfys(fa, H)) else None
        fa.name = ra.name
        ra = fa
    try:
        got = bool(ra == rb)
    except Exception:  # noqa
        got = False
    try:
        got2 = bool(rb == ra)
    except Exception:  # noqa
        got2 = False
    return {"k": "eq", "a": a, "b": b, "got": got, "got2": got2}


def variants(rnd, t):
    """Pairs (a, b): identical, or differing in exactly one aspect / kind."""
    import json as _j
    a = t
    b = _j.loads(_j.dumps(t))
    choice = rnd.choice(["same", "same", "name", "ws", "attrval", "attrset", "attrorder", "childtext", "childstruct",
                         "childname", "kind_list", "foreign", "depvalue", "depsame"])
    if choice == "name":
        b["name"] = b["name"] + "x"
    elif choice == "ws":
        b["ws"] = not b["ws"]
    elif choice == "attrval":
        if not b["attrs"]:
            b["attrs"] = ["q=1"]
            a = dict(a, attrs=["q=2"])
        else:
            k, v = b["attrs"][0].split("=", 1)
            b["attrs"][0] = f"{k}={v}!"
    elif choice == "attrset":
        b["attrs"] = b["attrs"] + ["extra=1"]
    elif choice == "attrorder":
        if len(b["attrs"]) >= 2:
            b["attrs"] = list(reversed(b["attrs"]))
    elif choice == "childtext":
        b["kids"] = b["kids"] + [{"f": "S", "v": "more"}]
        a = dict(a, kids=a["kids"] + [{"f": "S", "v": "mor"}])
    elif choice == "childstruct":
        b["kids"] = b["kids"] + [{"f": "T", "name": "i", "ws": False, "attrs": [], "kids": []}]
    elif choice == "childname":
        a = dict(a, kids=a["kids"] + [{"f": "T", "name": "i", "ws": False, "attrs": [], "kids": []}])
        b["kids"] = b["kids"] + [{"f": "T", "name": "em", "ws": False, "attrs": [], "kids": []}]
    elif choice in ("depvalue", "depsame"):
        # dependencies are compared by value: the same name and version with another script is another dependency
        a = dict(a, kids=a["kids"] + [{"f": "D", "name": "d@1.0", "v": "s1"}])
        b["kids"] = b["kids"] + [{"f": "D", "name": "d@1.0", "v": "s1" if choice == "depsame" else "s2"}]
    elif choice == "kind_list":
        b = {"f": "L", "kids": b["kids"]}
    elif choice == "foreign":
        b = {"f": "X", "v": rnd.choice(["userlist", "list", "list", "tuple", "namespace", "str", "dict", "object"])}
        if rnd.random() < 0.5:
            a = rnd.choice([{"f": "L", "kids": [{"f": "S", "v": "a"}, {"f": "T", "name": "span", "ws": False, "attrs": [], "kids": [{"f": "S", "v": "b"}]}]},
                            {"f": "D", "name": "d@1.0", "v": ""}])
    return a, b


def eq_tree(rnd):
    """Trees for == : tags, text and HTML leaves and value-compared dependencies only."""
    def node(d):
        kids = []
        if d < 3:
            for _ in range(rnd.randint(0, 3)):
                r = rnd.random()
                if r < 0.4:
                    kids.append(node(d + 1))
                elif r < 0.8:
                    kids.append({"f": "S", "v": rnd.choice(["a", "b", ""])})
                else:
                    kids.append({"f": "H", "v": "<u>"})
        attrs = {rnd.choice(["a", "b", "c"]): rnd.choice(["1", "2"]) for _ in range(rnd.randint(0, 2))}
        return {"f": "T", "name": rnd.choice(["div", "span"]), "ws": rnd.random() < 0.5,
                "attrs": [f"{k}={v}" for k, v in attrs.items()], "kids": kids}
    return node(0)


class C08(_Base):
    observed_from_suite = ["HeapTrace"]
    id = "C08"
    design_ref = "DESIGN.md section 3, C08"
    rule = ("histories of the system specification (tagify, copy, the read-only operations, public mutators through a "
            "chosen root) enumerated by TLC on three hand-built heaps, and seeded random histories (5-20 steps) on random "
            "trees with dependencies, HTML(), tagifiable and self-rendering objects, html/body/head roots and "
            "HTMLDocument roots with attribute arguments; pairs of trees for ==.  Non-trivial: the history contains a "
            "tagify or a read-only operation on a tree with at least three objects.")
    assumptions = [
        "the object graph is projected by a traversal over Tag.children / Tag.attrs / TagList elements / dependency head / "
        "HTMLDocument instance fields; identity is id() with every visited object kept alive",
        "tagifiable test objects return freshly built expansions (the protocol's contract)",
        "shares-no-object is read over the tree; lists held inside a copied dependency are fields of that metadata node",
        "pairs for == never differ only in an HTML() mark or only in attribute order (outside the statement)",
    ]

    def nontrivial(self, rec):
        if rec.get("k") == "eq":
            return True
        return len(rec.get("heap0", [])) >= 3 and any(e["op"] in ("tagify",) or e["ro"] for e in rec["events"])

    def gens_from_export(self, lines, tier, rnd):
        return [{"kind": "hist", "tree": ln["tree"], "hist": ln["hist"], "seed": i} for i, ln in enumerate(lines)]

    def gens_random(self, tier, rnd):
        gens = []
        acts = ["Tagify", "Tagify", "CopyTag", "ReadOnly", "ReadOnly", "ReadOnly", "ReadOnly", "MutAppend", "MutAttr", "MutName", "MutDrop"]
        # the object-history machine (spec/ObjOps.tla): only the object an operation is applied to changes
        from .. import objhist
        gens += objhist.gens(rnd, 150 if tier == "quick" else 3000, 8)
        # a component whose tagify() raises: every read-only operation fails the same way every time (a failure leaves
        # nothing behind that makes the same objects behave differently afterwards)
        for n in range(12 if tier == "quick" else 120):
            bad = {"f": "T", "name": "div", "ws": True, "attrs": [], "kids": [
                {"f": "S", "v": "a"}, {"f": "T", "name": "p", "ws": True, "attrs": [], "kids": [{"f": "F", "mode": "raise", "kids": []}] * (1 + n % 2)},
                {"f": "D", "name": "d@1.0"}]}
            ops = ["render", "tagify_ro", "render", "str", "docrender", "tagify_ro", "get_dependencies", "render", "views", "repr"]
            gens.append({"kind": "hist", "tree": bad, "seed": n, "hist": [
                {"act": "ReadOnly", "i": 1, "op": ops[(n + j * 3) % len(ops)], "kind": "", "ord": 0} for j in range(8)]})
        # every kind of dependency of the generator, with the dependency's own methods called between the other
        # read-only operations (the methods leave the dependency - also its source / script / stylesheet / meta values - as it was)
        for n in range(18 if tier == "quick" else 180):
            names = ["h@1.0", "e@2", "g@3", "n@1", "d@1.0", "f@0.1"]
            own = {"f": "T", "name": "div", "ws": True, "attrs": [], "kids": [
                {"f": "S", "v": "a"}, {"f": "D", "name": names[n % 6]},
                {"f": "T", "name": "p", "ws": n % 2 == 0, "attrs": [], "kids": [{"f": "D", "name": names[(n + 1) % 6]}, {"f": "D", "name": names[n % 6]}]}]}
            ops = ["dep_methods", "render", "dep_methods", "str", "docrender", "save_html", "dep_methods", "get_dependencies", "views", "tagify_ro"]
            gens.append({"kind": "hist", "tree": own, "seed": n, "hist": [
                {"act": "ReadOnly", "i": 1, "op": ops[(n + j * 3) % len(ops)], "kind": "", "ord": 0} for j in range(8)]})
        for n in range(300 if tier == "quick" else 6000):
            t = rand_tree(rnd, rnd.choice([6, 15, 40]))
            if rnd.random() < 0.25:
                kids = rnd.choice([[t], [t], t["kids"], [dict(t, name="html")], [dict(t, name="body", attrs=["class=c"])]])
                t = {"f": "DOC", "attrs": rnd.choice([[], ["lang=en"], ["lang=en", "class=k"]]), "kids": kids}
            hist = []
            nroots = 1
            for _ in range(rnd.randint(3, 20 if tier == "thorough" else 10)):
                act = rnd.choice(acts)
                h = {"act": act, "i": rnd.randint(1, nroots), "kind": "", "ord": rnd.randint(1, 12)}
                if act == "ReadOnly":
                    h["op"] = rnd.choice(RO_OPS[:12])
                if act.startswith("Mut"):
                    h["kind"] = {"MutAppend": "list", "MutDrop": "list", "MutAttr": "attrs", "MutName": "tag"}[act]
                if act in ("Tagify", "CopyTag"):
                    nroots += 1
                hist.append(h)
            gens.append({"kind": "hist", "tree": t, "hist": hist, "seed": n})
        # documents built around a lone <html> / <body> with attribute arguments, rendered and re-inspected
        for root in ("html", "body", "div"):
            for args in ([], ["lang=en"], ["class=a", "lang=fr"]):
                for kids in ([], [{"f": "T", "name": "head", "ws": True, "attrs": [], "kids": [{"f": "D", "name": "d@1.0"}]},
                                  {"f": "T", "name": "body", "ws": True, "attrs": [], "kids": [{"f": "S", "v": "x"}]}]):
                    t = {"f": "DOC", "attrs": args, "kids": [{"f": "T", "name": root, "ws": True, "attrs": ["id=r"], "kids": kids}]}
                    hist = [{"act": "ReadOnly", "i": 1, "op": op, "kind": "", "ord": 0} for op in ("docrender", "docrender", "save_html", "render", "render")]
                    gens.append({"kind": "hist", "tree": t, "hist": hist, "seed": 0})
        for _ in range(400 if tier == "quick" else 8000):
            a, b = variants(rnd, eq_tree(rnd))
            gens.append({"kind": "eq", "a": a, "b": b, "renamed": rnd.choice([None, None, "script", "br", "style", "span"])})
        # JSX components are tagifiable too: their tagify() result must not share metadata nodes with them
        from . import jsxprop
        j = jsxprop.C20()
        for n in range(150 if tier == "quick" else 3000):
            gens.append({"kind": "jsx", "tree": j.rnode(rnd, 1, "C"), "salt": n})
        return gens


class C09(_Base):
    id = "C09"
    design_ref = "DESIGN.md section 3, C09"
    rule = ("trees with tagifiable objects at every kind of position (first, last, adjacent, nested in other expansions, "
            "empty next to non-empty) whose tagify() returns a TagList of any length, a Tag, a str, HTML() or a dependency: "
            "the three hand-built heaps of the model under every TLC history, and seeded random trees; each compared with "
            "the tree in which every tagifiable is replaced by its expansion.  Non-trivial: the tree contains at least one "
            "tagifiable object.")
    assumptions = [
        "tagifiable test objects return fully tagified, freshly built expansions (the protocol's contract)",
        "the comparison tree is built by the harness by structural substitution; TLC checks it against Expand() before use",
        "top-level content whose expansion is a lone <html>/<body> is not generated (ambiguity A2 of DESIGN.md)",
    ]

    def nontrivial(self, rec):
        return any(o and o["t"] == "tfy" for o in rec.get("heap0", []))

    def gens_from_export(self, lines, tier, rnd):
        gens = []
        seen = set()
        for i, ln in enumerate(lines):
            if any(h["act"] == "Tagify" for h in ln["hist"]):
                gens.append({"kind": "hist", "tree": ln["tree"], "hist": ln["hist"], "seed": i})
            key = str(ln["tree"])
            if key not in seen:
                seen.add(key)
                gens.append({"kind": "expand", "tree": ln["tree"]})
        return gens

    def gens_random(self, tier, rnd):
        gens = []
        for n in range(500 if tier == "quick" else 10000):
            t = rand_tree(rnd, rnd.choice([6, 15, 40]))

            def plain_names(n):
                # HTMLDocument chooses the document shape from the UN-expanded content (a lone <html>/<body>), so content
                # whose expansion is - or becomes - a lone <html>/<body> is read differently before and after expansion
                # (ambiguity A2 of DESIGN.md): such element names are not generated here
                if n.get("name") in ("html", "body", "head"):
                    n["name"] = "div"
                for k in n.get("kids", []):
                    plain_names(k)
            plain_names(t)
            if rnd.random() < 0.3:
                t = {"f": "L", "kids": t["kids"]}
            if n < 12:
                # a component whose tagify() raises: every read-only operation fails the same way, every time, and the
                # failure leaves nothing behind (the same objects behave like fresh ones afterwards)
                bad = {"f": "T", "name": "div", "ws": True, "attrs": [], "kids": [
                    {"f": "S", "v": "a"}, {"f": "T", "name": "p", "ws": True, "attrs": [], "kids": [{"f": "F", "mode": "raise", "kids": []}] * (1 + n % 2)},
                    {"f": "D", "name": "d@1.0"}]}
                ops = ["render", "tagify_ro", "render", "str", "docrender", "tagify_ro", "get_dependencies", "render", "views"]
                gens.append({"kind": "hist", "tree": bad, "seed": n, "hist": [
                    {"act": "ReadOnly", "i": 1, "op": ops[(n + j) % len(ops)], "kind": "", "ord": 0} for j in range(7)]})
                gens.append({"kind": "scenario", "name": "head_content", "n": n % 3, "v": "v%d" % n})
                gens.append({"kind": "scenario", "name": "per_instance", "first_tfy": n % 2 == 0, "n": n})
                gens.append({"kind": "scenario", "name": "append_after_tagify", "n": n})
                gens.append({"kind": "scenario", "name": "cached_head_component", "n": n})
                gens.append({"kind": "scenario", "name": "raise_then_ready", "n": n})
                gens.append({"kind": "scenario", "name": "doc_rerender_after_growth", "n": n})
            gens.append({"kind": "expand", "tree": t})
            gens.append({"kind": "hist", "tree": t, "seed": n, "hist": [
                {"act": "ReadOnly", "i": 1, "op": "rawstring", "kind": "", "ord": 0},
                {"act": "Tagify", "i": 1, "kind": "", "ord": 0},
                {"act": "Tagify", "i": 2, "kind": "", "ord": 0},
                {"act": "ReadOnly", "i": 2, "op": "rawstring", "kind": "", "ord": 0}]})
        return gens
