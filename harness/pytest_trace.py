"""A pytest plugin (loaded with -p harness.pytest_trace, PYTHONPATH=/verif) that records what the repository's own
test suite makes the library do, so that every trace specification's clauses are evaluated on the states the suite
itself reaches - not only on the assertion each test's author thought of.  Nothing in /repo is changed: the wrappers
are installed from outside at configure time.

Recorded (written as ndjson to $VERIF_TRACE_OUT at the end of the session):
  escape  every html_escape(text, attr) call and its result                      -> EscapeTrace (C02 / C03)
  parse   every top-level Tag.get_html_string of a tree of ordinary elements       -> ParseTrace  (C01)
  heap    every top-level Tag.tagify / TagList.tagify with the object graph
          projected before and after                                               -> HeapTrace   (C08)
"""
from __future__ import annotations

import json
import os

_recs = []
_depth = {"render": 0, "tagify": 0}


def _cps(s):
    return [ord(c) for c in s]


def pytest_configure(config):
    import htmltools
    from htmltools import _core, _util
    from harness.props import parse as P
    from harness.props import jsxprop
    from htmltools import _jsx as J

    real_escape = _util.html_escape

    def html_escape(text, attr=False):
        out = real_escape(text, attr)
        if isinstance(text, str) and isinstance(out, str) and len(text) <= 2000:
            _recs.append({"m": "EscapeTrace", "k": "seg", "p": "C03" if attr else "C02", "ctx": "attr" if attr else "text",
                          "pieces": [{"m": "esc", "t": _cps(text)}], "seg": _cps(out)})
        return out

    for mod in (_util, _core, htmltools):
        if getattr(mod, "html_escape", None) is real_escape:
            setattr(mod, "html_escape", html_escape)

    H = htmltools
    import re
    name_ok = re.compile(r"^[A-Za-z][A-Za-z0-9:_.-]*$")

    def ordinary(x):
        """tree of ordinary elements: valid names, plain-text leaves, no trusted markup, no raw-text elements with text"""
        if isinstance(x, H.Tag):
            if not name_ok.match(x.name) or any(not name_ok.match(k) or isinstance(v, H.HTML) for k, v in x.attrs.items()):
                return False
            if x.name in ("script", "style") and len(x.children):
                return False
            return all(ordinary(c) for c in x.children)
        if isinstance(x, H.MetadataNode):
            return True
        return type(x) is str

    real_ghs = H.Tag.get_html_string

    def get_html_string(self, indent=0, eol="\n"):
        _depth["render"] += 1
        try:
            out = real_ghs(self, indent, eol)
        finally:
            _depth["render"] -= 1
        if _depth["render"] == 0 and isinstance(out, str) and isinstance(eol, str) and eol.strip() == "" and ordinary(self):
            _recs.append({"m": "ParseTrace", "tree": P.project(self, H), "events": P.tokenize(out)})
        return out

    H.Tag.get_html_string = get_html_string

    def wrap_tagify(cls):
        real = cls.tagify

        def tagify(self):
            top = _depth["tagify"] == 0
            if top:
                proj = jsxprop.JProj(H, J)
                heap0, roots0 = proj.snapshot([self])
            _depth["tagify"] += 1
            try:
                res = real(self)
            finally:
                _depth["tagify"] -= 1
            if top and isinstance(res, (H.Tag, H.TagList)):
                heap, rs = proj.snapshot([self, res])
                _recs.append({"m": "HeapTrace", "k": "hist", "heap0": heap0, "roots0": roots0, "events": [
                    {"op": "tagify_observed", "ro": True, "root": 1, "newroot": rs[1], "via": 0, "res": "", "eq": True, "arg": "",
                     "heap": heap, "roots": rs}]})
            return res
        cls.tagify = tagify

    wrap_tagify(H.Tag)
    wrap_tagify(H.TagList)


def pytest_unconfigure(config):
    out = os.environ.get("VERIF_TRACE_OUT")
    if out:
        with open(out, "w") as f:
            for r in _recs:
                f.write(json.dumps(r) + "\n")
