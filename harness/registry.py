"""Property id -> Prop instance."""
import importlib

_WHERE = {
    "C02": ("escape", "C02"),
    "C04": ("escape", "C04"),
}


def get_prop(pid: str):
    mod, cls = _WHERE[pid]
    m = importlib.import_module(f"harness.props.{mod}")
    return getattr(m, cls)()
