"""Property id -> Prop instance, and the MANIFEST entries."""
import importlib

# id -> (module under harness.props, class, level text, level note, technique)
_WHERE = {
    "C02": ("escape", "C02",
            "TLC checks, for every string over the 11-symbol metacharacter alphabet up to the bound, that the "
            "code-shaped model of html_escape satisfies the property-level matcher (each special replaced by SOME "
            "reference decoding to it, everything else unchanged); the same matcher, evaluated by TLC, judges what "
            "the real library emitted for TLC-enumerated strings in every child-placement shape, for every Unicode "
            "code point, for seeded random strings and for every tag function of the catalogue.",
            "Trusted: TLC/SANY, the Match/Decode operators of spec/EscapeOps.tla, the marker-based location of a "
            "leaf's segment in the output, CPython. The transcription Escape() is not trusted (drift only).",
            "TLA+ spec (Escape) model-checked with TLC; TLC-enumerated inputs replayed into the code; recorded "
            "outputs validated by TLC trace spec (EscapeTrace)"),
    "C04": ("escape", "C04",
            "TLC enumerates every HTML()/str/object expression tree up to the bound and checks the dispatch model "
            "(result is HTML iff an operand is; each plain operand escaped exactly once); each tree is evaluated with "
            "the real operators on hostile payloads and the rendered result is judged by TLC against the "
            "property-level piece matcher; trusted leaves (HTML(), _repr_html_, script/style text, HTML() attribute "
            "values) are checked verbatim in every placement shape.",
            "Trusted: TLC/SANY, Match and Leaves/HasH in the spec, marker-based segment location, CPython.",
            "TLA+ spec (HtmlStr) model-checked with TLC; TLC-enumerated expressions replayed into the code; recorded "
            "renderings validated by TLC trace spec (EscapeTrace)"),
}

NOT_YET = {}


def get_prop(pid: str):
    mod, cls = _WHERE[pid][:2]
    m = importlib.import_module(f"harness.props.{mod}")
    return getattr(m, cls)()


def manifest_checks():
    out = []
    for pid in sorted(_WHERE):
        mod, cls, text, note, tech = _WHERE[pid]
        out.append({
            "property_id": pid,
            "quick_cmd": f"bin/check {pid} --tier quick",
            "thorough_cmd": f"bin/check {pid} --tier thorough",
            "evidence_file": f"/verif/evidence/{pid}.json",
            "replay_cmd_template": "bin/check --replay {path}",
            "engine": "tlc",
            "level_claimed": {"category": "model_checking", "text": text, "design_ref": f"DESIGN.md section 3, {pid}"},
            "level_note": note,
            "technique": tech,
        })
    return out
