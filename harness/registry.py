"""Property id -> Prop instance, and the MANIFEST entries."""
import importlib

# id -> (module under harness.props, class, level text, level note, technique)
_WHERE = {
    "C02": ("escape", "C02",
            "TLC checks, for every string over the 11-symbol metacharacter alphabet up to the bound, that the "
            "code-shaped model of html_escape satisfies the property-level matcher (each special replaced by SOME "
            "reference decoding to it, everything else unchanged); the same matcher, evaluated by TLC, judges what "
            "the real library emitted for TLC-enumerated strings in every child-placement shape, for every Unicode "
            "code point, for seeded random strings and for every tag function of the catalogue.",
            "Trusted: TLC/SANY, the Match/Decode operators of spec/EscapeOps.tla, the marker-based location of a "
            "leaf's segment in the output, CPython. The transcription Escape() is not trusted (drift only).",
            "TLA+ spec (Escape) model-checked with TLC; TLC-enumerated inputs replayed into the code; recorded "
            "outputs validated by TLC trace spec (EscapeTrace)"),
    "C04": ("escape", "C04",
            "TLC enumerates every HTML()/str/object expression tree up to the bound and checks the dispatch model "
            "(result is HTML iff an operand is; each plain operand escaped exactly once); each tree is evaluated with "
            "the real operators on hostile payloads and the rendered result is judged by TLC against the "
            "property-level piece matcher; trusted leaves (HTML(), _repr_html_, script/style text, HTML() attribute "
            "values) are checked verbatim in every placement shape.",
            "Trusted: TLC/SANY, Match and Leaves/HasH in the spec, marker-based segment location, CPython.",
            "TLA+ spec (HtmlStr) model-checked with TLC; TLC-enumerated expressions replayed into the code; recorded "
            "renderings validated by TLC trace spec (EscapeTrace)"),
    "C03": ("attr", "C03",
            "TLC explores every attribute history up to the bound (construction with several dicts/keywords, update, "
            "item assignment, add_class/add_style, plain and HTML() values for one name) on the AttrOps model and "
            "checks that what the writer emits for each stored value matches its origin (plain parts escaped by "
            "references that decode to them, HTML() parts verbatim); every explored history is replayed on a real Tag "
            "and TLC judges the tokenised opening tag; plus all strings up to the bound and every code point through "
            "the attribute escape table.",
            "Trusted: TLC/SANY, Match and the declarative AfterCallSpec in the spec, the quote-based scanner of the "
            "opening tag, CPython.",
            "TLA+ spec (Attr/AttrOps/Escape) model-checked with TLC; TLC-generated histories replayed into the code; "
            "recorded histories validated by TLC trace specs (AttrTrace, EscapeTrace)"),
    "C15": ("attr", "C15",
            "TLC explores attribute histories over colliding raw names and all value kinds and checks that the "
            "accumulator-shaped model of TagAttrDict equals the declarative reading (names normalised, values of one "
            "call joined in argument order, later calls replace, order by first appearance); each history is replayed "
            "on a real Tag and the stored dict after every step is judged by TLC against the declarative reading; "
            "consolidate_attrs is compared with direct construction.",
            "Trusted: TLC/SANY, AfterCallSpec/NormName in the spec, the projection list(tag.attrs.items()), CPython.",
            "TLA+ spec (Attr/AttrOps) model-checked with TLC; TLC-generated histories replayed into the code; recorded "
            "histories validated by TLC trace spec (AttrTrace)"),
    "C05": ("layout", "C05",
            "TLC enumerates every ordered tree and top-level list up to the bound over the eight node kinds and checks "
            "that the transcribed sibling state machine never puts a layout token inside or between inline content; "
            "each enumerated tree and seeded random trees (to 60 nodes, depth 8) are rendered by the real library with "
            "several indent/eol/add_ws settings and TLC judges the scanned token sequence against the same predicates.",
            "Trusted: TLC/SANY, the predicates C05i-iii and Inline() in spec/RenderOps.tla, the regular-expression token "
            "scanner, CPython.",
            "TLA+ spec (Render/RenderOps) model-checked with TLC; TLC-enumerated trees replayed into the code; recorded "
            "token sequences validated by TLC trace spec (RenderTrace)"),
    "C06": ("layout", "C06",
            "TLC checks on every in-scope tree up to the bound that the documented line-and-indent rule (Lines/Flat) and "
            "the transcribed sibling state machine produce the same tokens for indent 0/2 and both eol settings; the "
            "real library's output for every enumerated tree and for seeded random trees (indent 0..5, four eol "
            "strings, text ending in line breaks) is judged by TLC against the documented rule.",
            "Trusted: TLC/SANY, Lines/Flat/InScope in spec/RenderOps.tla, the token scanner, CPython.",
            "TLA+ spec (Render/RenderOps) model-checked with TLC; TLC-enumerated trees replayed into the code; recorded "
            "token sequences validated by TLC trace spec (RenderTrace)"),
    "C07": ("layout", "C07",
            "TLC enumerates trees with metadata nodes at every subset of positions and checks Render(tree) = "
            "Render(Strip(tree)) on the model; each tree is built twice for the real library (with and without its "
            "metadata nodes, of three kinds) and TLC compares the two scanned token sequences.",
            "Trusted: TLC/SANY, the token scanner, the harness building the stripped tree (checked by TLC against Strip), CPython.",
            "TLA+ spec (Render/RenderOps) model-checked with TLC; TLC-enumerated trees replayed into the code; recorded "
            "token sequences validated by TLC trace spec (RenderTrace)"),
    "C01": ("parse", "C01",
            "TLC checks on every tree up to the bound that the rendered token stream minus layout is exactly the "
            "pre-order walk of the tree (each element opened and closed once, nested, self-closed exactly when a void "
            "name is childless); the real output for every enumerated shape (names cycling through the whole catalogue "
            "and all void names, hostile text and attribute values) and for seeded random trees is fed to an "
            "independent HTML tokenizer and TLC compares the token events with ElementView(tree), the tree being what the "
            "caller handed to the constructors; the same objects are also rendered a second time after an attribute was "
            "removed, after a failed rendering was repaired, and after children were added.",
            "Trusted: TLC/SANY, ElementView/Agree in spec/ParseBackOps.tla, the harness's HTML tokenizer (which defines "
            "'tokenizes as HTML' here, numeric references decoded as the HTML standard does) and the element tree the "
            "harness derives from what it passes to the constructors, CPython.",
            "TLA+ spec (Render/RenderOps/ParseBackOps) model-checked with TLC; TLC-enumerated trees replayed into the "
            "code; tokenised real output validated by TLC trace spec (ParseTrace)"),
    "C14": ("children", "C14",
            "TLC explores every history of child operations up to the bound over a pool of nested / dropped / converted / "
            "unsupported arguments and checks that the accumulator-shaped model of flatten + _tagchilds_to_tagnodes "
            "equals the declarative depth-first flattening, that only tag nodes are stored and that a TypeError leaves "
            "the list unchanged; every explored history is replayed on a real TagList or Tag, and seeded random "
            "histories (to 30 operations, nesting to depth 6) are recorded; TLC judges every step of every history "
            "against the declarative reading.",
            "Trusted: TLC/SANY, FlatSpec/ApplySpec in spec/NormalizeOps.tla, the projection of list(x) by element type "
            "and label, CPython.",
            "TLA+ spec (Normalize/NormalizeOps) model-checked with TLC; TLC-generated histories replayed into the code; "
            "recorded histories validated by TLC trace spec (ListTrace)"),
    "C16": ("classstyle", "C16",
            "TLC explores every history of add_class / remove_class / has_class / add_style up to the bound from every "
            "initial class value over a whitespace-bearing alphabet, with tokens that are substrings of one another, and "
            "checks the code-shaped operators against the token algebra (and css() against its per-character key "
            "mapping for all keyword sequences); every explored history and seeded random histories are run on a real "
            "Tag and TLC judges each step from the logged state before it.",
            "Trusted: TLC/SANY, Split/Without/AddClassOk/RemoveClassOk/CssSpec in spec/ClassStyleOps.tla, the projection "
            "tag.attrs.get(name), CPython.",
            "TLA+ spec (ClassStyle/ClassStyleOps) model-checked with TLC; TLC-generated histories replayed into the "
            "code; recorded histories validated by TLC trace spec (ClassTrace)"),
    "C19": ("catalogue", "C19",
            "Exhaustive: TLC enumerates every (module, function, _add_ws argument, argument shape) call over the whole "
            "catalogue with its required outcome (element name, whitespace default from the project's inline "
            "classification read at check time, TypeError for a non-boolean _add_ws); every call is made on the real "
            "function and TLC judges name, flag, exception and equality with the directly constructed Tag.",
            "Trusted: TLC/SANY, Expected() in spec/CatalogueOps.tla, the catalogue constants transcribed from the pinned "
            "tree, ast.literal_eval of _INLINE_TAG_NAMES, the library's == for the pass-through clause, CPython.",
            "TLA+ spec (Catalogue/CatalogueOps) enumerated exhaustively with TLC; every TLC-generated call replayed "
            "into the code; recorded results validated by TLC trace spec (CatTrace)"),
    "C08": ("purity", "C08",
            "TLC explores the system specification (heap of tags / child lists / attribute maps / metadata / tagifiable "
            "objects; actions tagify, copy, read-only operations, public mutators through a chosen root) and checks "
            "independence, non-interference, fixed point and that only mutators touch existing objects; every explored "
            "history and seeded random histories (incl. HTMLDocument roots) are run on real objects with the whole "
            "reachable object graph projected after every step, and TLC judges each step: structure unchanged for "
            "read-only operations, no shared mutable object after tagify, repeatability, == against abstract equality.",
            "Trusted: TLC/SANY, Struct/Shared/Expand/AbsEq in the spec, the harness's traversal that projects the object "
            "graph (id()-based identity), CPython.",
            "TLA+ system spec (HtmlTools/HeapOps) model-checked with TLC; TLC-generated histories replayed into the "
            "code; recorded heap histories validated by TLC trace spec (HeapTrace)"),
    "C09": ("purity", "C09",
            "TLC checks on the system specification that tagify() of a heap equals the declarative expansion (TagList "
            "results spliced in place, others substituted) for every explored history; for the same trees and seeded "
            "random trees the real render()/HTMLDocument.render() output and dependency list are compared with those of "
            "the tree in which each tagifiable is replaced by its expansion (TLC first checks that comparison tree "
            "against Expand), and un-expanded objects must raise instead of emitting.",
            "Trusted: TLC/SANY, Expand/Struct in spec/HeapOps.tla, the heap projection, string equality of two real "
            "renderings, CPython.",
            "TLA+ system spec (HtmlTools/HeapOps) model-checked with TLC; TLC-generated histories replayed into the "
            "code; recorded heaps validated by TLC trace spec (HeapTrace)"),
    "C17": ("displayhook", "C17",
            "TLC explores every program of with-blocks up to the bound (3 tags, nesting 3, exceptions at every point, "
            "guarded and unguarded blocks) on the DisplayHook machine and checks hook restoration on every exit path, "
            "exactly-once delivery and intact chain on re-entry; the hook-chain invariant is additionally checked to be "
            "inductive (every state satisfying it is an initial state), which covers programs of any length over 3/4 tags; every complete program of the generation bound and "
            "seeded random programs (to depth 8, 60 events) are executed with genuine `with tag:` statements and TLC "
            "replays each recorded run through the same step function, comparing hook identity, children, deliveries "
            "and exceptions after every event.",
            "Trusted: TLC/SANY, DisplayHookOps.StepF as the reading of the statement, the harness's recursive interpreter "
            "that aligns Python's unwinding with the program's Exit events, identity-based observation of sys.displayhook, CPython.",
            "TLA+ spec (DisplayHook) model-checked with TLC; TLC-generated programs replayed into the code; recorded runs "
            "validated by TLC trace spec (DHTrace)"),
    "C10": ("deps", "C10",
            "TLC checks on every dependency sequence up to the bound (names x multi-component versions x distinguishable "
            "payloads) that the insertion-ordered-map fold of _resolve_dependencies equals the declarative reading "
            "(one per name, highest version-number, earliest on ties, names by first occurrence), is idempotent and "
            "commutes with nesting; every sequence is placed at random nesting in a real tree and TLC judges "
            "get_dependencies() / dedup=False / render() against the declarative reading; every definition shape is "
            "constructed and must be rejected exactly when the statement says.",
            "Trusted: TLC/SANY, ResolveSpec/Collect/VLess/DefOk in spec/DepOps.tla, the harness's parse of str(version) "
            "into release segments, CPython.",
            "TLA+ spec (Deps/DepOps) model-checked with TLC; TLC-generated sequences and definitions replayed into the "
            "code; recorded results validated by TLC trace spec (DepTrace)"),
    "C11": ("document", "C11",
            "TLC enumerates document contents up to the bound (lone html / body, head in any child position, dependencies "
            "and head_content at every placement, html attribute arguments) and checks the consequences C11 states on the "
            "required document tree (one head starting with meta charset, one listing iff dependencies, every dependency's "
            "markup once and only in head); each content is rendered by the real HTMLDocument and TLC compares the "
            "tokenised output and the returned dependency list with the required tree built from the real inputs.",
            "Trusted: TLC/SANY, DocTree/Resolved in spec/DocumentOps.tla, the harness HTML tokenizer and its reading of "
            "the real dependency objects, CPython.",
            "TLA+ spec (Document/DocumentOps) model-checked with TLC; TLC-generated contents replayed into the code; "
            "tokenised real documents validated by TLC trace spec (DocTrace)"),
    "C12": ("files", "C12",
            "TLC checks percent-encoding round-trips for every short path over a hostile byte alphabet and, on a directory "
            "model, every choice of listed files, present files (the fault sequence), all_files, include_version and stale "
            "target content: a missing listed file raises with the target untouched, otherwise the target holds exactly "
            "the copied files and every URL decodes to one of them; each case and seeded random cases are run with real "
            "directories and real save_html() calls, and TLC judges the before/after directory projections and the URLs "
            "read back from the written file.",
            "Trusted: TLC/SANY, Quote/Unquote/UrlFor/Copied/Under in spec/DepFilesOps.tla, os.walk + sha256 directory "
            "projection, the HTML tokenizer that reads the URLs back, the file system, CPython.",
            "TLA+ spec (DepFiles/DepFilesOps) model-checked with TLC (fault enumeration over missing files); TLC-generated "
            "cases replayed on real directories; recorded projections validated by TLC trace spec (FilesTrace)"),
    "C13": ("depjson", "C13",
            "TLC checks for every string up to the bound over an alphabet containing script/SCRIPT/Script as letter blocks "
            "that the neutralised JSON text contains no end-tag-like '</script' and still decodes to the original, and for "
            "every short text of segments that extraction yields each distinct serialisation once in order and only the "
            "first placeholder is replaced; each enumerated string is put into a field of a real dependency, serialised "
            "and read back through HTMLTextDocument, and TLC scans the real serialised element; enumerated and random "
            "texts are run through the real HTMLTextDocument and the recovered ids / remaining markers are judged by TLC.",
            "Trusted: TLC/SANY, EndTagAt/ExtractDeps/Remaining/Rendered in spec/DepJsonOps.tla, Python equality on the "
            "dependency fields, the marker scanner, HTMLDocument as the source of the expected head markup, CPython.",
            "TLA+ spec (DepJson/DepJsonOps) model-checked with TLC; TLC-generated strings and texts replayed into the "
            "code; recorded serialisations and extractions validated by TLC trace spec (JsonTrace)"),
    "C18": ("determinism", "C18",
            "TLC enumerates the schedules (every order of a battery of constructions with one repetition inserted anywhere); "
            "a seeded sample of them is run, each in fresh interpreter processes with different PYTHONHASHSEED values, and "
            "TLC checks that all observations of a construction - any process, seed, position or repetition - are equal; "
            "head_content payload pairs are checked for name equality exactly on equal rendered content and for being "
            "included once / twice in a document.",
            "Trusted: TLC/SANY, Functional/Injective in the spec, sha1 digests printed by the worker processes, CPython's "
            "PYTHONHASHSEED semantics.",
            "TLA+ spec (Determinism) enumerated with TLC; TLC-generated schedules run in real interpreter processes; the "
            "recorded observations validated by TLC trace spec (DetTrace)"),
    "C20": ("jsxprop", "C20",
            "TLC enumerates component trees up to the bound (children of every kind, props of every value kind incl. tag / "
            "component / tagifiable props) and checks the shape of the required React.createElement expression and that "
            "every dependency at the listed positions is in the metadata to surface; each tree is built as a real "
            "component, converted three times (tagify / str / tagify) with the whole reachable object graph projected "
            "before and after, and TLC judges purity (structure unchanged, equal results), the expression read back "
            "from the emitted script against El(tree), the surfaced dependencies against MetaOf(tree), and allow-lists.",
            "Trusted: TLC/SANY, El/MetaOf in spec/JsxOps.tla and Struct in spec/HeapOps.tla, the harness's expression "
            "reader and heap projection, CPython.",
            "TLA+ spec (Jsx/JsxOps, HeapOps) model-checked with TLC; TLC-generated component trees replayed into the "
            "code; recorded conversions validated by TLC trace specs (JsxTrace, HeapTrace)"),
}

NOT_YET = {}


def get_prop(pid: str):
    mod, cls = _WHERE[pid][:2]
    m = importlib.import_module(f"harness.props.{mod}")
    return getattr(m, cls)()


def manifest_checks():
    out = []
    for pid in sorted(_WHERE):
        mod, cls, text, note, tech = _WHERE[pid]
        out.append({
            "property_id": pid,
            "quick_cmd": f"bin/check {pid} --tier quick",
            "thorough_cmd": f"bin/check {pid} --tier thorough",
            "evidence_file": f"/verif/evidence/{pid}.json",
            "replay_cmd_template": "bin/check --replay {path}",
            "engine": "tlc",
            "level_claimed": {"category": "model_checking", "text": text, "design_ref": f"DESIGN.md section 3, {pid}"},
            "level_note": note,
            "technique": tech,
        })
    return out
