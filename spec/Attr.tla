-------------------------------- MODULE Attr --------------------------------
(***************************************************************************)
(* Operation histories on one TagAttrDict: construction (Tag(...)), later  *)
(* attrs.update(...), item assignment, add_class / add_style.  The state   *)
(* graph is the tree of all histories up to the bound; every node is       *)
(* exported and replayed on a real Tag.                                    *)
(***************************************************************************)
EXTENDS AttrOps

CONSTANTS Names,      \* raw attribute names (code point sequences)
          Vals,       \* input values [k, t]
          MaxItems,   \* items in the constructing call
          MaxLater,   \* items in a later update call
          MaxOps      \* operations after construction

VARIABLES attrs, hist, exc
vars == <<attrs, hist, exc>>

Items(n) == UNION {[1..k -> Names \X Vals] : k \in 0..n}
ClassName == <<99, 108, 97, 115, 115>>
StyleName == <<115, 116, 121, 108, 101>>
TextVals == {v \in Vals : v.k \in {"str", "html"}}

Init == attrs = <<>> /\ hist = <<>> /\ exc = "none"

Do(op, r) == /\ attrs' = r.attrs /\ exc' = r.exc /\ hist' = Append(hist, op)

New == /\ hist = <<>>
       /\ \E it \in Items(MaxItems) : Do([op |-> "new", items |-> it], Update(<<>>, it))
Later == /\ hist # <<>> /\ Len(hist) <= MaxOps /\ exc = "none"
         /\ \/ \E it \in Items(MaxLater) : Do([op |-> "update", items |-> it], Update(attrs, it))
            \/ \E n \in Names, v \in Vals : Do([op |-> "setitem", items |-> << <<n, v>> >>], SetItem(attrs, n, v))
            \/ \E nm \in {ClassName, StyleName}, v \in TextVals, pre \in BOOLEAN :
                   \* add_style insists on a trailing semicolon (C16); only such declarations are supplied here
                   /\ nm = StyleName => (v.t # <<>> /\ v.t[Len(v.t)] = SEMI)
                   /\ Do([op |-> IF pre THEN "addpre" ELSE "add", items |-> << <<nm, v>> >>], AddVia(attrs, nm, v, pre))
Next == New \/ Later
Spec == Init /\ [][Next]_vars

-----------------------------------------------------------------------------
\* C15 at design level: the accumulator-shaped code model equals the declarative reading
RECURSIVE SpecReplay(_, _)
SpecReplay(h, i) ==
  IF i = 0 THEN <<>>
  ELSE LET before == SpecReplay(h, i - 1)  o == h[i] IN
       IF \E k \in 1..Len(o.items) : IsBad(o.items[k][2]) THEN before
       ELSE CASE o.op \in {"new", "update"} -> AfterCallSpec(before, o.items)
              [] o.op = "setitem" -> IF Dropped(o.items[1][2]) THEN before
                                     ELSE Put(before, NormName(o.items[1][1]), Norm(o.items[1][2]))
              [] o.op = "add"    -> AfterCallSpec(before, << <<o.items[1][1], Stored(before, o.items[1][1])>>, o.items[1] >>)
              [] o.op = "addpre" -> AfterCallSpec(before, << o.items[1], <<o.items[1][1], Stored(before, o.items[1][1])>> >>)
InvC15 == attrs = SpecReplay(hist, Len(hist))
InvNames == \A i, j \in 1..Len(attrs) : attrs[i].n = attrs[j].n => i = j
\* C03 at design level: what the writer emits for every stored value is inert
InvC03 == \A i \in 1..Len(attrs) :
             Match(attrs[i].v.ch, attrs[i].v.md, WriteVal(attrs[i].v), AttrSpecials) = 0
InvExc == exc = "TypeError" <=> (hist # <<>> /\ \E k \in 1..Len(hist[Len(hist)].items) : IsBad(hist[Len(hist)].items[k][2]))

Export == Serialize(ToJson([hist |-> hist, attrs |-> Proj(attrs), exc |-> exc, out |-> WriteAttrs(attrs)]) \o "\n",
             IOEnv.EXPORT_FILE,
             [format |-> "TXT", charset |-> "UTF-8", openOptions |-> <<"WRITE", "CREATE", "APPEND">>]).exitValue = 0
=============================================================================
