------------------------------ MODULE AttrOps ------------------------------
(***************************************************************************)
(* TagAttrDict: attribute-name and value normalisation, merging inside one *)
(* call, replacement across calls, item assignment, and the attribute      *)
(* writer of Tag.get_html_string.  Serves C03 (what is emitted for a value *)
(* of plain / HTML() origin, however it was supplied) and C15 (names,      *)
(* values, order).                                                         *)
(*                                                                         *)
(* A stored value is [html, ch, md]: whether it is marked HTML(), its      *)
(* characters *by origin* and for each character whether it came from a    *)
(* plain value ("esc": must be attribute-escaped exactly once by the time  *)
(* it is written) or from an HTML() value / a joining space ("raw").       *)
(* An attribute map is a sequence of [n, v] (Python dict order).           *)
(* Input values: [k, t] with k in str | html | num | true | false | none | *)
(* bad  (t = text; for num the str() text).                                *)
(***************************************************************************)
EXTENDS EscapeOps

US == 95   \* '_'
HY == 45   \* '-'
SP == 32

V(k, t) == [k |-> k, t |-> t]
Dropped(v) == v.k \in {"none", "false"}
IsBad(v)   == v.k = "bad"
Val(html, ch, md) == [html |-> html, ch |-> ch, md |-> md]

\* TagAttrDict._normalize_attr_name: drop ONE trailing underscore, then '_' -> '-'
NormName(x) ==
  LET y == IF Len(x) > 0 /\ x[Len(x)] = US THEN SubSeq(x, 1, Len(x) - 1) ELSE x
  IN [i \in 1..Len(y) |-> IF y[i] = US THEN HY ELSE y[i]]

\* TagAttrDict._normalize_attr_value for the values that are kept
Norm(v) ==
  CASE v.k = "true"           -> Val(FALSE, <<>>, <<>>)
    [] v.k \in {"str", "num"} -> Val(FALSE, v.t, [i \in 1..Len(v.t) |-> "esc"])
    [] v.k = "html"           -> Val(TRUE, v.t, [i \in 1..Len(v.t) |-> "raw"])
    [] v.k = "stored"         -> v.val

\* `attrz[nm] + " " + val`: str + str stays plain; as soon as one side is HTML()
\* the result is HTML() and the plain side has been attribute-escaped (so its
\* characters keep mode "esc": escaped exactly once, at merge time instead of
\* at write time).
Join(p, v) == Val(p.html \/ v.html, p.ch \o <<SP>> \o v.ch, p.md \o <<"raw">> \o v.md)

Find(attrs, nm) == IF \E i \in 1..Len(attrs) : attrs[i].n = nm
                   THEN CHOOSE i \in 1..Len(attrs) : attrs[i].n = nm ELSE 0

\* dict.__setitem__ / dict.update for one key: replace in place or append
Put(attrs, nm, val) == LET i == Find(attrs, nm) IN
                       IF i # 0 THEN [attrs EXCEPT ![i].v = val] ELSE Append(attrs, [n |-> nm, v |-> val])

-----------------------------------------------------------------------------
(* Code-shaped: TagAttrDict.update with positional dicts and keywords *)

\* items: the (raw name, input value) pairs of all dicts, dicts left to right, then keywords
RECURSIVE Acc(_, _, _)
Acc(attrz, items, i) ==
  IF i > Len(items) THEN attrz
  ELSE LET it == items[i] IN
       IF Dropped(it[2]) THEN Acc(attrz, items, i + 1)
       ELSE LET nm == NormName(it[1])  val == Norm(it[2])  j == Find(attrz, nm) IN
            Acc(Put(attrz, nm, IF j # 0 THEN Join(attrz[j].v, val) ELSE val), items, i + 1)

RECURSIVE PutAll(_, _, _)
PutAll(attrs, attrz, i) == IF i > Len(attrz) THEN attrs
                           ELSE PutAll(Put(attrs, attrz[i].n, attrz[i].v), attrz, i + 1)

AnyBad(items) == \E i \in 1..Len(items) : IsBad(items[i][2])

\* result [exc, attrs]; a value of unsupported type raises before anything is stored
Update(attrs, items) ==
  IF AnyBad(items) THEN [exc |-> "TypeError", attrs |-> attrs]
  ELSE [exc |-> "none", attrs |-> PutAll(attrs, Acc(<<>>, items, 1), 1)]

\* TagAttrDict.__setitem__: None/False are ignored (nothing stored, nothing removed)
SetItem(attrs, name, v) ==
  IF IsBad(v) THEN [exc |-> "TypeError", attrs |-> attrs]
  ELSE IF Dropped(v) THEN [exc |-> "none", attrs |-> attrs]
  ELSE [exc |-> "none", attrs |-> Put(attrs, NormName(name), Norm(v))]

\* Tag.add_class / Tag.add_style funnel the stored value back through update
Stored(attrs, nm) == LET i == Find(attrs, nm) IN
                     IF i = 0 THEN V("none", <<>>) ELSE [k |-> "stored", t |-> <<>>, val |-> attrs[i].v]
AddVia(attrs, nm, v, prepend) ==
  IF prepend THEN Update(attrs, << <<nm, v>>, <<nm, Stored(attrs, nm)>> >>)
  ELSE Update(attrs, << <<nm, Stored(attrs, nm)>>, <<nm, v>> >>)

-----------------------------------------------------------------------------
(* Property level (C15): stated declaratively, not as an accumulator fold *)

Live(items) == SelectSeq(items, LAMBDA it : ~Dropped(it[2]))
\* normalised names in order of first appearance
RECURSIVE FirstNames(_, _, _)
FirstNames(items, i, acc) ==
  IF i > Len(items) THEN acc
  ELSE LET nm == NormName(items[i][1]) IN
       FirstNames(items, i + 1, IF \E k \in 1..Len(acc) : acc[k] = nm THEN acc ELSE Append(acc, nm))
RECURSIVE JoinAll(_, _)
JoinAll(vals, i) == IF i = 1 THEN Norm(vals[1][2]) ELSE Join(JoinAll(vals, i - 1), Norm(vals[i][2]))
\* what one call contributes: for each name, all its non-dropped values joined by single spaces
CallSpec(items) ==
  LET live == Live(items)  names == FirstNames(live, 1, <<>>) IN
  [k \in 1..Len(names) |->
     LET mine == SelectSeq(live, LAMBDA it : NormName(it[1]) = names[k]) IN
     [n |-> names[k], v |-> JoinAll(mine, Len(mine))]]
\* after the call: existing names keep position (value replaced if given), new names follow
AfterCallSpec(attrs, items) ==
  LET c == CallSpec(items)
      Given(nm) == \E k \in 1..Len(c) : c[k].n = nm
      ValOf(nm) == c[CHOOSE k \in 1..Len(c) : c[k].n = nm].v
      old == [i \in 1..Len(attrs) |-> IF Given(attrs[i].n) THEN [n |-> attrs[i].n, v |-> ValOf(attrs[i].n)] ELSE attrs[i]]
      new == SelectSeq(c, LAMBDA a : Find(attrs, a.n) = 0)
  IN old \o new

-----------------------------------------------------------------------------
(* The attribute writer of Tag.get_html_string *)

EscModes(ch, md) == FlattenSeq([i \in 1..Len(ch) |-> IF md[i] = "esc" THEN Escape(<<ch[i]>>, TRUE) ELSE <<ch[i]>>])
\* plain value: html_escape(val, attr=True) at write time; HTML() value: verbatim,
\* its plain-origin parts having been escaped when they were merged in
WriteVal(v) == EscModes(v.ch, v.md)
\* ' key="value"' for each attribute, in order
Quote == 34  EQ == 61
WriteAttrs(attrs) == FlattenSeq([i \in 1..Len(attrs) |-> <<SP>> \o attrs[i].n \o <<EQ, Quote>> \o WriteVal(attrs[i].v) \o <<Quote>>])

\* projection used to compare with the real dict: (name, is HTML, text)
Proj(attrs) == [i \in 1..Len(attrs) |-> [n |-> attrs[i].n, html |-> attrs[i].v.html, t |-> attrs[i].v.ch]]
=============================================================================
