----------------------------- MODULE Catalogue -----------------------------
(* Every call [mod, f, addws, shape] over the whole catalogue is one state.  *)
EXTENDS CatalogueOps, TLC, Json, IOUtils
CONSTANT NShapes
VARIABLE call
Calls == UNION {[mod : {m}, f : NamesOf(m), addws : AddWsArgs, shape : 1..NShapes] : m \in Mods}
Init == call \in Calls
Next == UNCHANGED call
Spec == Init /\ [][Next]_call

\* catalogue sanity at design level
InvTopLevelAreHtml == TopLevel \subseteq HtmlNames
InvCounts == Cardinality(HtmlNames) = 113 /\ Cardinality(SvgNames) = 66 /\ Cardinality(TopLevel) = 17
\* the default is a function of the name alone: tags.a and svg.a agree, shortcuts agree with tags
InvDefaultByName == \A c, d \in {x \in Calls : x.shape = 1 /\ x.addws = "default"} :
                       c.f = d.f => Expected(c).ws = Expected(d).ws
InvExpected == LET e == Expected(call) IN
   /\ (e.exc = "TypeError") = (call.addws \in {"str", "int", "none"} \/ call.shape \in BadShapes)
   /\ e.exc = "none" => e.name = call.f
Export == Serialize(ToJson([call |-> call, exp |-> Expected(call)]) \o "\n", IOEnv.EXPORT_FILE,
             [format |-> "TXT", charset |-> "UTF-8", openOptions |-> <<"WRITE", "CREATE", "APPEND">>]).exitValue = 0
=============================================================================
