--------------------------- MODULE CatalogueData ---------------------------
(* The element catalogue, transcribed from htmltools/tags.py, htmltools/svg.py *)
(* and the re-exports in htmltools/__init__.py of the pinned tree.             *)
HtmlNames == {
  "a", "abbr", "address", "area", "article", "aside", "audio", "b", "base", "bdi", "bdo",
  "blockquote", "body", "br", "button", "canvas", "caption", "cite", "code", "col", "colgroup",
  "data", "datalist", "dd", "details", "dfn", "dialog", "div", "dl", "dt", "em", "embed",
  "fieldset", "figcaption", "figure", "footer", "form", "h1", "h2", "h3", "h4", "h5", "h6",
  "head", "header", "hr", "html", "i", "iframe", "img", "input", "ins", "kbd", "label",
  "legend", "li", "link", "main", "map", "mark", "math", "menu", "meta", "meter", "nav",
  "noscript", "object", "ol", "optgroup", "option", "output", "p", "param", "picture",
  "portal", "pre", "progress", "q", "rp", "rt", "ruby", "s", "samp", "script", "section",
  "select", "slot", "small", "source", "span", "strong", "style", "sub", "summary", "sup",
  "svg", "table", "tbody", "td", "template", "textarea", "tfoot", "th", "thead", "time",
  "title", "tr", "track", "u", "ul", "var", "video", "wbr" }

SvgNames == {
  "a", "animate", "animateMotion", "animateTransform", "circle", "clipPath", "defs", "desc",
  "discard", "ellipse", "feBlend", "feColorMatrix", "feComponentTransfer", "feComposite",
  "feConvolveMatrix", "feDiffuseLighting", "feDisplacementMap", "feDistantLight",
  "feDropShadow", "feFlood", "feFuncA", "feFuncB", "feFuncG", "feFuncR", "feGaussianBlur",
  "feImage", "feMerge", "feMergeNode", "feMorphology", "feOffset", "fePointLight",
  "feSpecularLighting", "feSpotLight", "feTile", "feTurbulence", "filter", "foreignObject",
  "g", "hatch", "hatchpath", "image", "line", "linearGradient", "marker", "mask", "metadata",
  "mpath", "path", "pattern", "polygon", "polyline", "radialGradient", "rect", "script", "set",
  "stop", "style", "svg", "switch", "symbol", "text", "textPath", "title", "tspan", "use",
  "view" }

TopLevel == {
  "a", "br", "code", "div", "em", "h1", "h2", "h3", "h4", "h5", "h6", "hr", "img", "p", "pre",
  "span", "strong" }
=============================================================================
