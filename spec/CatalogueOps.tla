---------------------------- MODULE CatalogueOps ----------------------------
(***************************************************************************)
(* C19: the generated tag functions.  A call is [mod, f, addws, shape]:    *)
(* module (tags | svg | top), function name, the _add_ws argument          *)
(* (default | true | false | str | int | none) and an argument shape.      *)
(* Inline is the project's inline classification; it is NOT transcribed:   *)
(* the harness reads it from scripts/generate_tags.py at check time and    *)
(* writes the module CatalogueInline into the scratch copy of the spec.    *)
(***************************************************************************)
EXTENDS Naturals, Sequences, FiniteSets, CatalogueData, CatalogueInline

Mods == {"tags", "svg", "top"}
NamesOf(m) == CASE m = "tags" -> HtmlNames [] m = "svg" -> SvgNames [] m = "top" -> TopLevel
AddWsArgs == {"default", "true", "false", "str", "int", "none"}
BoolArgs == {"default", "true", "false"}

\* what the call must produce
\* argument shapes whose child is not a valid child: rejected like the Tag constructor rejects it
BadShapes == {17}
Expected(c) ==
  IF c.addws \notin BoolArgs \/ c.shape \in BadShapes THEN [exc |-> "TypeError", name |-> "", ws |-> FALSE]
  ELSE [exc |-> "none", name |-> c.f,
        ws |-> IF c.addws = "default" THEN c.f \notin Inline ELSE c.addws = "true"]
=============================================================================
