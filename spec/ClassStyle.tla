----------------------------- MODULE ClassStyle -----------------------------
(* Histories of add_class / remove_class / has_class / add_style on one tag, *)
(* from every initial class value over a small alphabet; and css() calls.    *)
EXTENDS ClassStyleOps, TLC, Json, IOUtils
CONSTANTS ClassAlphabet, MaxInit, Toks, Decls, MaxOps, CssKeys, CssVals, MaxKw

VARIABLES cls, sty, hist, init
vars == <<cls, sty, hist, init>>

Strs(n) == UNION {[1..k -> ClassAlphabet] : k \in 0..n}
Init == /\ cls \in {Absent} \cup {Present(s) : s \in Strs(MaxInit)}
        /\ sty = Absent /\ hist = <<>> /\ init = cls
Rec(op, tok, pre, res, exc) == [op |-> op, tok |-> tok, pre |-> pre, res |-> res, exc |-> exc, cls |-> cls', sty |-> sty']
Next == /\ Len(hist) < MaxOps
        /\ \/ \E t \in Toks, pre \in BOOLEAN :
                /\ cls' = AddClass(cls, t, pre) /\ UNCHANGED <<sty, init>>
                /\ hist' = Append(hist, Rec("add_class", t, pre, FALSE, "none"))
           \/ \E t \in Toks :
                /\ cls' = RemoveClass(cls, t) /\ UNCHANGED <<sty, init>>
                /\ hist' = Append(hist, Rec("remove_class", t, FALSE, FALSE, "none"))
           \/ \E t \in Toks :
                /\ UNCHANGED <<cls, sty, init>>
                /\ hist' = Append(hist, Rec("has_class", t, FALSE, HasClass(cls, t), "none"))
           \/ \E d \in Decls, pre \in BOOLEAN :
                LET r == AddStyle(sty, d, pre) IN
                /\ sty' = r.v /\ UNCHANGED <<cls, init>>
                /\ hist' = Append(hist, Rec("add_style", d, pre, FALSE, r.exc))
Spec == Init /\ [][Next]_vars

\* C16 at design level: the code-shaped operators satisfy the token algebra at every step
StepOk(before, h) ==
  CASE h.op = "add_class"    -> AddClassOk(before.cls, h.cls, h.tok, h.pre)
    [] h.op = "remove_class" -> RemoveClassOk(before.cls, h.cls, h.tok)
    [] h.op = "has_class"    -> h.res = Has(Tokens(before.cls), h.tok) /\ h.cls = before.cls
    [] h.op = "add_style"    -> AddStyleOk(before.sty, h.sty, h.exc, h.tok, h.pre)
InvC16 == \A i \in 1..Len(hist) :
   StepOk(IF i = 1 THEN [cls |-> init, sty |-> Absent] ELSE [cls |-> hist[i - 1].cls, sty |-> hist[i - 1].sty], hist[i])

\* css(): every keyword sequence up to MaxKw
KwSeqs == UNION {[1..n -> [k : CssKeys, none : BOOLEAN, v : CssVals]] : n \in 0..MaxKw}
InvCss == \A kw \in KwSeqs :
   /\ CssCode(kw, <<>>) = CssSpec(kw)
   /\ CssCode(kw, <<>>).p => AddStyle(Absent, CssCode(kw, <<>>).t, FALSE).exc = "none"

Export == Len(hist) = MaxOps =>
   Serialize(ToJson([init |-> init, hist |-> hist]) \o "\n", IOEnv.EXPORT_FILE,
             [format |-> "TXT", charset |-> "UTF-8", openOptions |-> <<"WRITE", "CREATE", "APPEND">>]).exitValue = 0
=============================================================================
