---------------------------- MODULE ClassStyleOps ----------------------------
(***************************************************************************)
(* C16: Tag.add_class / remove_class / has_class, Tag.add_style and css(). *)
(* An attribute value is [p, t]: present?, text (code points).              *)
(* Code-shaped operators (AddClass, RemoveClass, HasClass, AddStyle, Css)   *)
(* stand next to the property-level token algebra (Split, Without, ...).    *)
(***************************************************************************)
EXTENDS Naturals, Sequences, FiniteSets, SequencesExt

SPc == 32  SEMIc == 59  COLON == 58  HYc == 45  USc == 95
\* str.split() whitespace (ASCII part and the common Unicode separators)
WSc == {9, 10, 11, 12, 13, 28, 29, 30, 31, 32, 133, 160}
Absent == [p |-> FALSE, t |-> <<>>]
Present(t) == [p |-> TRUE, t |-> t]

\* whitespace tokens of a string, in order (block-structured to keep TLC's recursion shallow)
RECURSIVE SplitFrom(_, _, _, _)
SplitFrom(s, i, cur, acc) ==
  IF i > Len(s) THEN (IF cur = <<>> THEN acc ELSE Append(acc, cur))
  ELSE IF s[i] \in WSc THEN SplitFrom(s, i + 1, <<>>, IF cur = <<>> THEN acc ELSE Append(acc, cur))
  ELSE SplitFrom(s, i + 1, Append(cur, s[i]), acc)
Split(s) == SplitFrom(s, 1, <<>>, <<>>)
Tokens(v) == IF v.p THEN Split(v.t) ELSE <<>>
JoinSp(toks) == IF toks = <<>> THEN <<>>
                ELSE FlattenSeq([i \in 1..Len(toks) |-> IF i = 1 THEN toks[i] ELSE <<SPc>> \o toks[i]])
Without(toks, tok) == SelectSeq(toks, LAMBDA x : x # tok)
Count(toks, tok) == Cardinality({i \in 1..Len(toks) : toks[i] = tok})
Has(toks, tok) == \E i \in 1..Len(toks) : toks[i] = tok
StripS(s) == LET idx == {i \in 1..Len(s) : s[i] \notin WSc} IN
             IF idx = {} THEN <<>> ELSE SubSeq(s, CHOOSE i \in idx : \A j \in idx : i <= j, CHOOSE i \in idx : \A j \in idx : i >= j)

-----------------------------------------------------------------------------
(* Code-shaped *)
\* attrs.update({"class": old}, {"class": new}) / the reverse: None dropped, joined by one space
AddVal(v, x, prepend) ==
  IF ~v.p THEN Present(x)
  ELSE IF prepend THEN Present(x \o <<SPc>> \o v.t) ELSE Present(v.t \o <<SPc>> \o x)
AddClass(v, tok, prepend) == AddVal(v, tok, prepend)
RemoveClass(v, tok) ==
  IF tok = <<>> THEN v                                  \* `if not class_: return self`
  ELSE IF ~v.p \/ v.t = <<>> THEN v                     \* `cls = get("class") or ""; if not cls: return`
  ELSE LET t == StripS(tok)  new == Without(Split(v.t), t) IN
       IF new # <<>> THEN Present(JoinSp(new)) ELSE Absent
HasClass(v, tok) == IF v.p /\ v.t # <<>> THEN Has(Split(v.t), tok) ELSE FALSE
EndsSemi(x) == x # <<>> /\ x[Len(x)] = SEMIc
\* [exc, v]
AddStyle(v, decl, prepend) ==
  IF ~EndsSemi(decl) THEN [exc |-> "ValueError", v |-> v] ELSE [exc |-> "none", v |-> AddVal(v, decl, prepend)]

\* css(): re.sub("_", "-", re.sub("([A-Z])", "-\\1", k).lower())
Lower(c) == IF c \in 65..90 THEN c + 32 ELSE c
CssKeyCode(k) == LET hy == FlattenSeq([i \in 1..Len(k) |-> IF k[i] \in 65..90 THEN <<HYc, k[i]>> ELSE <<k[i]>>])
                     lo == [i \in 1..Len(hy) |-> Lower(hy[i])]
                 IN [i \in 1..Len(lo) |-> IF lo[i] = USc THEN HYc ELSE lo[i]]
\* kwargs: <<[k, none, v]>> (v = the str() text of the value)
CssCode(kw, collapse) ==
  LET parts == FlattenSeq([i \in 1..Len(kw) |->
                 IF kw[i].none THEN <<>> ELSE CssKeyCode(kw[i].k) \o <<COLON>> \o kw[i].v \o <<SEMIc>> \o collapse])
  IN IF parts = <<>> THEN Absent ELSE Present(parts)

-----------------------------------------------------------------------------
(* Property level *)
\* per character: capital X -> "-x", underscore -> "-", everything else unchanged
CssKeySpec(k) == FlattenSeq([i \in 1..Len(k) |->
                   IF k[i] \in 65..90 THEN <<HYc, k[i] + 32>> ELSE IF k[i] = USc THEN <<HYc>> ELSE <<k[i]>>])
CssSpec(kw) ==
  LET live == SelectSeq(kw, LAMBDA a : ~a.none)
      parts == FlattenSeq([i \in 1..Len(live) |-> CssKeySpec(live[i].k) \o <<COLON>> \o live[i].v \o <<SEMIc>>])
  IN IF live = <<>> THEN Absent ELSE Present(parts)

\* add_class on a whitespace-free, non-empty token
AddClassOk(old, new, tok, prepend) ==
  LET o == Tokens(old)  n == Tokens(new) IN
  /\ Has(n, tok)
  /\ Without(n, tok) = Without(o, tok)
  /\ IF ~Has(o, tok) THEN n = (IF prepend THEN <<tok>> \o o ELSE Append(o, tok))
     ELSE n = o \/ n = (IF prepend THEN <<tok>> \o o ELSE Append(o, tok))
RemoveClassOk(old, new, tok) ==
  /\ Tokens(new) = Without(Tokens(old), tok)
  /\ (Has(Tokens(old), tok) /\ Tokens(new) = <<>>) => ~new.p
AddStyleOk(old, new, exc, decl, prepend) ==
  IF ~EndsSemi(decl) THEN exc = "ValueError" /\ new = old
  ELSE /\ exc = "none"
       /\ new = (IF ~old.p THEN Present(decl)
                 ELSE IF prepend THEN Present(decl \o <<SPc>> \o old.t) ELSE Present(old.t \o <<SPc>> \o decl))
WsFree(tok) == tok # <<>> /\ \A i \in 1..Len(tok) : tok[i] \notin WSc
=============================================================================
