------------------------------ MODULE DepFiles ------------------------------
(* Design level: (1) percent-encoding round-trips for every short path over a  *)
(* hostile byte alphabet; (2) the copier over every choice of listed files,    *)
(* present files, all_files, stale target content: a missing listed file       *)
(* raises with the target untouched, otherwise the target holds exactly the    *)
(* copied files.                                                               *)
EXTENDS DepFilesOps, TLC, Json, IOUtils
CONSTANTS PathAlphabet, MaxPath
VARIABLES path, cas
vars == <<path, cas>>

\* three candidate source files (one nested, hostile names): "a b.js", "c%23.css", "d/e.js"
F1 == <<97, 32, 98, 46, 106, 115>>  F2 == <<99, 37, 50, 51, 46, 99, 115, 115>>  F3 == <<100, 47, 101, 46, 106, 115>>
Files == {F1, F2, F3}
Listings == {<<>>, <<F1>>, <<F2, F1>>, <<F3>>, <<F1, F2, F3>>, <<<<100>>>>}     \* the last lists the directory "d"
Name == <<110>>  Ver == <<49, 46, 48>>  Lib == <<111, 117, 116, 47, 108, 105, 98>>     \* n, 1.0, out/lib
Cases == [files : Listings, present : SUBSET Files, allfiles : BOOLEAN, inclver : BOOLEAN,
          stale : {"none", "file", "other"}, src : {"dir", "url", "none"}]
NoCase == [files |-> <<>>, present |-> {}, allfiles |-> FALSE, inclver |-> FALSE, stale |-> "none", src |-> "none"]

Init == (path = <<>> /\ cas \in Cases)
Next == cas = NoCase /\ Len(path) < MaxPath /\ \E b \in PathAlphabet : path' = Append(path, b) /\ UNCHANGED cas
Spec == Init /\ [][Next]_vars

InvRoundTrip == Unquote(Quote(path)) = path
InvQuoteSafe == \A i \in 1..Len(Quote(path)) : LET c == Quote(path)[i] IN Unreserved(c) \/ c \in {SL, PCT}
InvQuoteIdentityOnSafe == (\A i \in 1..Len(path) : Unreserved(path[i]) \/ path[i] = SL) => Quote(path) = path

Src(c) == {[p |-> f, h |-> "h"] : f \in c.present}
D(c) == [name |-> Name, vstr |-> Ver, src |-> c.src, href |-> <<104, 58, 47, 47, 117>>, files |-> c.files, allfiles |-> c.allfiles]
Target(c) == Join(Lib, DepDir(Name, Ver, c.inclver))
Before(c) == CASE c.stale = "none" -> {}
               [] c.stale = "file" -> {[p |-> Join(Target(c), <<111, 108, 100>>), h |-> "stale"]}
               [] c.stale = "other" -> {[p |-> Join(Lib, <<122, 47, 107>>), h |-> "keep"]}
After(c) == CopyTo(Before(c), D(c), Src(c), Lib, c.inclver)
InvMissingRaisesTargetUntouched ==
  (cas.src = "dir" /\ Missing(D(cas), Src(cas)) # {}) => (After(cas).exc /\ After(cas).fs = Before(cas))
InvTargetExactlyCopied ==
  (cas.src = "dir" /\ Missing(D(cas), Src(cas)) = {}) =>
     (~After(cas).exc /\ Under(After(cas).fs, Target(cas)) = Copied(D(cas), Src(cas)))
InvOthersKept == \A x \in Before(cas) : ~StartsWith(x.p, Target(cas) \o <<SL>>) => x \in After(cas).fs
InvNoSourceCopiesNothing == cas.src # "dir" => After(cas) = [exc |-> FALSE, fs |-> Before(cas)]
\* every URL of a listed, present file decodes to the path of a copied file
InvUrlNamesCopiedFile ==
  (cas.src = "dir" /\ Missing(D(cas), Src(cas)) = {} /\ ~cas.allfiles) =>
     \A i \in 1..Len(cas.files) : LET f == cas.files[i] IN
        (\E x \in Src(cas) : x.p = f) =>
           \E y \in After(cas).fs : y.p = Unquote(UrlFor(D(cas), Lib, cas.inclver, f))
Export == path = <<>> =>
   Serialize(ToJson([cas |-> cas]) \o "\n", IOEnv.EXPORT_FILE,
             [format |-> "TXT", charset |-> "UTF-8", openOptions |-> <<"WRITE", "CREATE", "APPEND">>]).exitValue = 0
=============================================================================
