---------------------------- MODULE DepFilesOps ----------------------------
(***************************************************************************)
(* C12: dependency URLs (HTMLDependency.source_path_map / as_dict) and the *)
(* file copier (copy_to / save_html), over a directory model.              *)
(* Paths and URLs are byte sequences (file names as the OS stores them in  *)
(* UTF-8; URLs are ASCII).  A directory tree is a set of files [p, h]:     *)
(* path relative to some root (bytes, '/'-separated) and content hash.     *)
(***************************************************************************)
EXTENDS Naturals, Sequences, FiniteSets, SequencesExt

SL == 47  PCT == 37  DSH == 45
Unreserved(b) == b \in 48..57 \/ b \in 65..90 \/ b \in 97..122 \/ b \in {45, 46, 95, 126}
Hex(n) == IF n < 10 THEN 48 + n ELSE 55 + n              \* upper-case, as urllib.parse.quote writes
HexV(c) == IF c \in 48..57 THEN c - 48 ELSE IF c \in 65..70 THEN c - 55 ELSE IF c \in 97..102 THEN c - 87 ELSE 16

\* urllib.parse.quote(path): every byte except unreserved ones and '/' becomes %XX
Quote(p) == FlattenSeq([i \in 1..Len(p) |->
              IF Unreserved(p[i]) \/ p[i] = SL THEN <<p[i]>> ELSE <<PCT, Hex(p[i] \div 16), Hex(p[i] % 16)>>])
\* percent-decoding (what a browser does to a URL path before asking for the file)
RECURSIVE Unquote(_)
Unquote(u) ==
  IF u = <<>> THEN <<>>
  ELSE IF u[1] = PCT /\ Len(u) >= 3 /\ HexV(u[2]) < 16 /\ HexV(u[3]) < 16
       THEN <<HexV(u[2]) * 16 + HexV(u[3])>> \o Unquote(SubSeq(u, 4, Len(u)))
       ELSE <<u[1]>> \o Unquote(Tail(u))

Join(a, b) == IF a = <<>> THEN b ELSE IF a[Len(a)] = SL THEN a \o b ELSE a \o <<SL>> \o b
StartsWith(s, pre) == Len(s) >= Len(pre) /\ SubSeq(s, 1, Len(pre)) = pre

\* prefix/name[-version]
DepDir(name, vstr, inclver) == name \o (IF inclver THEN <<DSH>> \o vstr ELSE <<>>)
\* the URL written for one script/stylesheet path
UrlFor(d, libdir, inclver, path) ==
  CASE d.src \in {"dir", "package"} -> Join(Join(libdir, DepDir(d.name, d.vstr, inclver)), Quote(path))
    [] d.src = "url" -> Join(d.href, Quote(path))
    [] OTHER -> Quote(path)

-----------------------------------------------------------------------------
(* the copier *)
\* files of the source directory that a listed path covers: the file itself, or everything below a directory
Covers(f, p) == p = f \/ StartsWith(p, f \o <<SL>>)
Exists(src, f) == \E x \in src : Covers(f, x.p)
TopLevel(src) == {LET i == {k \in 1..Len(x.p) : x.p[k] = SL} IN
                  IF i = {} THEN x.p ELSE SubSeq(x.p, 1, (CHOOSE k \in i : \A m \in i : k <= m) - 1) : x \in src}
\* what copy_to works through
ToCopy(d, src) == IF d.allfiles THEN TopLevel(src) ELSE {d.files[i] : i \in 1..Len(d.files)}
Missing(d, src) == {f \in ToCopy(d, src) : ~Exists(src, f)}
Copied(d, src) == {x \in src : \E f \in ToCopy(d, src) : Covers(f, x.p)}

\* Under(fs, dir): the files of fs below directory dir, with paths relative to it
Under(fs, dir) == {[p |-> SubSeq(x.p, Len(dir) + 2, Len(x.p)), h |-> x.h] : x \in {y \in fs : StartsWith(y.p, dir \o <<SL>>)}}

\* copy_to as three steps; result [exc, fs]
CopyTo(fs, d, src, destroot, inclver) ==
  IF d.src \notin {"dir", "package"} THEN [exc |-> FALSE, fs |-> fs]                      \* URL / no source: nothing
  ELSE IF Missing(d, src) # {} THEN [exc |-> TRUE, fs |-> fs]                            \* verify first: target untouched
  ELSE LET target == Join(destroot, DepDir(d.name, d.vstr, inclver))
           cleared == {x \in fs : ~StartsWith(x.p, target \o <<SL>>)}                     \* rmtree(target)
       IN [exc |-> FALSE, fs |-> cleared \cup {[p |-> Join(target, x.p), h |-> x.h] : x \in Copied(d, src)}]
=============================================================================
