------------------------------- MODULE DepJson -------------------------------
(* (1) every string of at most MaxSyms symbols over an alphabet that contains  *)
(* the letter blocks script / SCRIPT / Script: the neutralised JSON text has no *)
(* end-tag-like '</script' and still decodes to the original string;            *)
(* (2) every text of at most MaxSegs segments: extraction and rendering.        *)
EXTENDS DepJsonOps, TLC, Json, IOUtils
CONSTANTS MaxSyms, MaxSegs
VARIABLES syms, segs
vars == <<syms, segs>>

\* symbols: single characters and the three letter blocks
SymSet == {"<", "/", "\\", "q", ">", " ", "n", "x", "script", "SCRIPT", "Script"}
Chars(sym) == CASE sym = "<" -> <<60>> [] sym = "/" -> <<47>> [] sym = "\\" -> <<92>> [] sym = "q" -> <<34>>
                [] sym = ">" -> <<62>> [] sym = " " -> <<32>> [] sym = "n" -> <<10>> [] sym = "x" -> <<120>>
                [] sym = "script" -> <<115, 99, 114, 105, 112, 116>> [] sym = "SCRIPT" -> <<83, 67, 82, 73, 80, 84>>
                [] sym = "Script" -> <<83, 99, 114, 105, 112, 116>>
Str == FlattenSeq([i \in 1..Len(syms) |-> Chars(syms[i])])

SegSet == {[k |-> "text", id |-> 1, dep |-> 0, var |-> 0], [k |-> "text", id |-> 2, dep |-> 0, var |-> 0],
           [k |-> "ser", id |-> 0, dep |-> 1, var |-> 0], [k |-> "ser", id |-> 0, dep |-> 1, var |-> 2],
           [k |-> "ser", id |-> 0, dep |-> 2, var |-> 0], [k |-> "ph", id |-> 0, dep |-> 0, var |-> 0]}

Init == syms = <<>> /\ segs = <<>>
GrowStr == segs = <<>> /\ Len(syms) < MaxSyms /\ \E y \in SymSet : syms' = Append(syms, y) /\ UNCHANGED segs
GrowDoc == syms = <<>> /\ Len(segs) < MaxSegs /\ \E g \in SegSet : segs' = Append(segs, g) /\ UNCHANGED syms
Next == GrowStr \/ GrowDoc
Spec == Init /\ [][Next]_vars

InvNoEndTag == NoEndTagInside(Neutralise(JsonStr(Str)))
InvStillDecodes == JsonUnStr(Neutralise(JsonStr(Str))) = Str
InvOncePerSerialisation ==
  LET d == ExtractDeps(segs, 1, {}) IN
  /\ \A i \in 1..Len(segs) : segs[i].k = "ser" => \E j \in 1..Len(d) : d[j] = segs[i].dep
  /\ Len(d) = Cardinality({SerOf(segs[i]) : i \in {j \in 1..Len(segs) : segs[j].k = "ser"}})
InvOnlyFirstPlaceholder ==
  LET r == Rendered(segs) IN Cardinality({i \in 1..Len(r) : r[i].k = "head"}) = (IF FirstPh(Remaining(segs)) = 0 THEN 0 ELSE 1)
Export == (syms = <<>> /\ segs # <<>>) =>
   Serialize(ToJson([segs |-> segs]) \o "\n", IOEnv.EXPORT_FILE,
             [format |-> "TXT", charset |-> "UTF-8", openOptions |-> <<"WRITE", "CREATE", "APPEND">>]).exitValue = 0
ExportStr == (segs = <<>> /\ syms # <<>> /\ Len(syms) <= 4) =>
   Serialize(ToJson([str |-> Str]) \o "\n", IOEnv.EXPORT_FILE,
             [format |-> "TXT", charset |-> "UTF-8", openOptions |-> <<"WRITE", "CREATE", "APPEND">>]).exitValue = 0
=============================================================================
