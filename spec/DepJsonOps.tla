----------------------------- MODULE DepJsonOps -----------------------------
(***************************************************************************)
(* C13: HTMLDependency.serialize_to_script_json and HTMLTextDocument.      *)
(* Character level: JsonStr (json.dumps of a string), Neutralise (making   *)
(* '</script' harmless inside the element), JsonUnStr (what json.loads     *)
(* gives back) and the end-tag scan NoEndTagInside.                        *)
(* Document level: a text is a sequence of segments                        *)
(*   [k |-> "text", id] | [k |-> "ser", dep, var] | [k |-> "ph"]           *)
(* (ser: the serialisation of dependency dep with indent variant var; ph:  *)
(* the placeholder); Extract and RenderText state what HTMLTextDocument    *)
(* must do with it.                                                        *)
(***************************************************************************)
EXTENDS Naturals, Sequences, FiniteSets, SequencesExt

LTc == 60  GTc == 62  SLc == 47  BSc == 92  DQc == 34  LFc == 10
LowerC(c) == IF c \in 65..90 THEN c + 32 ELSE c
LowerS(s) == [i \in 1..Len(s) |-> LowerC(s[i])]
EndTagStart == <<60, 47, 115, 99, 114, 105, 112, 116>>      \* </script

\* json.dumps of a string over the model's alphabet (quote, backslash and LF are the escapes that matter)
JsonChar(c) == CASE c = DQc -> <<BSc, DQc>> [] c = BSc -> <<BSc, BSc>> [] c = LFc -> <<BSc, 110>> [] OTHER -> <<c>>
JsonStr(s) == <<DQc>> \o FlattenSeq([i \in 1..Len(s) |-> JsonChar(s[i])]) \o <<DQc>>

\* positions at which '</script' starts, in any letter case
EndTagAt(s) == {i \in 1..(Len(s) - 7) : LowerS(SubSeq(s, i, i + 7)) = EndTagStart}
\* re.sub("</(script)", r"<\\/\1", text, flags=re.I): a backslash before the slash (a legal JSON escape)
Neutralise(s) == FlattenSeq([i \in 1..Len(s) |-> IF (i - 1) \in EndTagAt(s) /\ s[i] = SLc THEN <<BSc, SLc>> ELSE <<s[i]>>])

\* json.loads of a string literal produced above (incl. the \/ escape)
RECURSIVE UnStr(_, _)
UnStr(s, i) == IF i >= Len(s) THEN <<>>
               ELSE IF s[i] = BSc THEN (CASE s[i + 1] = 110 -> <<LFc>> [] OTHER -> <<s[i + 1]>>) \o UnStr(s, i + 2)
               ELSE <<s[i]>> \o UnStr(s, i + 1)
JsonUnStr(s) == UnStr(s, 2)

\* the serialised element: <script ...>TEXT</script>; nothing in TEXT may look like the end tag
NoEndTagInside(text) == EndTagAt(text) = {}

-----------------------------------------------------------------------------
(* Document level *)
SerOf(seg) == <<seg.dep, seg.var>>
\* dependencies recovered: once per distinct serialisation, in order of first appearance
RECURSIVE ExtractDeps(_, _, _)
ExtractDeps(segs, i, seen) ==
  IF i > Len(segs) THEN <<>>
  ELSE IF segs[i].k = "ser" /\ SerOf(segs[i]) \notin seen
       THEN <<segs[i].dep>> \o ExtractDeps(segs, i + 1, seen \cup {SerOf(segs[i])})
       ELSE ExtractDeps(segs, i + 1, seen)
\* every serialised script removed, everything else untouched
Remaining(segs) == SelectSeq(segs, LAMBDA g : g.k # "ser")
\* render(): only the first placeholder becomes the head content
FirstPh(segs) == LET p == {i \in 1..Len(segs) : segs[i].k = "ph"} IN IF p = {} THEN 0 ELSE CHOOSE i \in p : \A j \in p : i <= j
Rendered(segs) == LET r == Remaining(segs)  f == FirstPh(r) IN
                  [i \in 1..Len(r) |-> IF i = f THEN [k |-> "head", id |-> 0, dep |-> 0, var |-> 0] ELSE r[i]]
=============================================================================
