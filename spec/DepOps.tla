------------------------------- MODULE DepOps -------------------------------
(***************************************************************************)
(* C10: collection and resolution of HTML dependencies, and validation of  *)
(* dependency definitions.                                                 *)
(* A dependency is [name, ver, pl]: name (string), version as its release  *)
(* segments (sequence of naturals), payload label (distinguishes objects   *)
(* of equal name and version).                                             *)
(* A tree is [k, c, d]: k = "t" (tag with children c) | "d" (dependency d) *)
(* | "x" (any other leaf).                                                 *)
(***************************************************************************)
EXTENDS Naturals, Sequences, FiniteSets, SequencesExt

Dep(name, ver, pl) == [name |-> name, ver |-> ver, pl |-> pl]

\* version-number ordering: segment-wise, the shorter one padded with zeros
Seg(v, i) == IF i <= Len(v) THEN v[i] ELSE 0
MaxLen2(a, b) == IF Len(a) > Len(b) THEN Len(a) ELSE Len(b)
VEq(a, b) == \A i \in 1..MaxLen2(a, b) : Seg(a, i) = Seg(b, i)
VLess(a, b) == \E i \in 1..MaxLen2(a, b) : Seg(a, i) < Seg(b, i) /\ \A j \in 1..(i - 1) : Seg(a, j) = Seg(b, j)

-----------------------------------------------------------------------------
(* Collection: document order, every nesting level, nothing dropped *)
RECURSIVE Collect(_)
Collect(x) == IF x.k = "d" THEN <<x.d>>
              ELSE IF x.k = "t" THEN FlattenSeq([i \in 1..Len(x.c) |-> Collect(x.c[i])])
              ELSE <<>>

-----------------------------------------------------------------------------
(* Code-shaped: _resolve_dependencies, an insertion-ordered map name -> dependency *)
FindName(m, nm) == IF \E i \in 1..Len(m) : m[i].name = nm THEN CHOOSE i \in 1..Len(m) : m[i].name = nm ELSE 0
RECURSIVE ResolveFrom(_, _, _)
ResolveFrom(deps, i, m) ==
  IF i > Len(deps) THEN m
  ELSE LET d == deps[i]  j == FindName(m, d.name) IN
       IF j = 0 THEN ResolveFrom(deps, i + 1, Append(m, d))
       ELSE IF VLess(m[j].ver, d.ver) THEN ResolveFrom(deps, i + 1, [m EXCEPT ![j] = d])   \* strictly greater only
       ELSE ResolveFrom(deps, i + 1, m)
Resolve(deps) == ResolveFrom(deps, 1, <<>>)

-----------------------------------------------------------------------------
(* Property level: one per name, the highest version, the earliest such object on ties, *)
(* names in order of first occurrence                                                   *)
Names(deps) == LET RECURSIVE F(_, _)
                   F(i, acc) == IF i > Len(deps) THEN acc
                                ELSE F(i + 1, IF \E k \in 1..Len(acc) : acc[k] = deps[i].name THEN acc ELSE Append(acc, deps[i].name))
               IN F(1, <<>>)
Best(deps, nm) ==
  LET idx == {i \in 1..Len(deps) : deps[i].name = nm}
      top == {i \in idx : \A j \in idx : ~VLess(deps[i].ver, deps[j].ver)}
  IN deps[CHOOSE i \in top : \A j \in top : i <= j]
ResolveSpec(deps) == LET ns == Names(deps) IN [k \in 1..Len(ns) |-> Best(deps, ns[k])]

-----------------------------------------------------------------------------
(* Definitions: each part is a class label *)
SourceClasses == {"none", "subdir", "package+subdir", "href", "package-only", "empty-dict", "str", "list"}
SourceOk(c) == c \in {"none", "subdir", "package+subdir", "href"}
\* for script / stylesheet / meta: none | one valid item | list of valid items | empty list
\* | item missing a required key | non-dict item | list with one invalid item among valid ones
\* | a Mapping that is not a dict (the statement: "a non-dict ... item ... is rejected")
ItemClasses == {"none", "one", "list", "empty-list", "missing-key", "empty-item", "non-dict", "list-with-missing", "list-with-non-dict",
                "mapping-item", "other-attrs-only"}
ItemsOk(c) == c \in {"none", "one", "list", "empty-list"}
MetaClasses == ItemClasses \cup {"missing-content"}
DefOk(d) == SourceOk(d.source) /\ ItemsOk(d.script) /\ ItemsOk(d.stylesheet) /\ ItemsOk(d.meta)
=============================================================================
