-------------------------------- MODULE Deps --------------------------------
(* Every sequence of dependencies up to MaxLen over Pool (built by appending), *)
(* and every definition shape.                                                 *)
EXTENDS DepOps, TLC, Json, IOUtils
CONSTANTS Pool, MaxLen
VARIABLES deps, def
vars == <<deps, def>>
Defs == [source : SourceClasses, script : ItemClasses, stylesheet : ItemClasses, meta : MetaClasses]
NoDef == [source |-> "none", script |-> "none", stylesheet |-> "none", meta |-> "none"]
Init == (deps = <<>> /\ def \in Defs)
Next == def = NoDef /\ Len(deps) < MaxLen /\ \E d \in Pool : deps' = Append(deps, d) /\ UNCHANGED def
Spec == Init /\ [][Next]_vars
\* sequences only (for -simulate: almost every initial state of Spec is a definition shape)
SpecSeq == (deps = <<>> /\ def = NoDef) /\ [][Next]_vars

InvResolveIsSpec == Resolve(deps) = ResolveSpec(deps)
InvIdempotent == Resolve(Resolve(deps)) = Resolve(deps)
InvOnePerName == LET r == Resolve(deps) IN \A i, j \in 1..Len(r) : r[i].name = r[j].name => i = j
InvNothingBetter == LET r == Resolve(deps) IN
   \A i \in 1..Len(deps) : \E k \in 1..Len(r) : r[k].name = deps[i].name /\ ~VLess(r[k].ver, deps[i].ver)
\* resolution commutes with nesting: resolving the parts first changes nothing (why de-duplicating at every level would be harmless)
InvHomomorphic == \A k \in 0..Len(deps) :
   Resolve(Resolve(SubSeq(deps, 1, k)) \o Resolve(SubSeq(deps, k + 1, Len(deps)))) = Resolve(deps)
Export == (def = NoDef => deps # <<>>) =>
   Serialize(ToJson([deps |-> deps, def |-> def, ok |-> DefOk(def)]) \o "\n", IOEnv.EXPORT_FILE,
             [format |-> "TXT", charset |-> "UTF-8", openOptions |-> <<"WRITE", "CREATE", "APPEND">>]).exitValue = 0
=============================================================================
