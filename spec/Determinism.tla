---------------------------- MODULE Determinism ----------------------------
(***************************************************************************)
(* C18: output is a function of the construction alone.                    *)
(* The specified system has one value val[c] per construction c of a fixed *)
(* battery; a process (an interpreter with some hash seed) performs the    *)
(* constructions in some order, possibly repeating one, and every          *)
(* observation must be val[c].  The machine enumerates the schedules:      *)
(* every order of the battery, with one repetition inserted anywhere.      *)
(* Functional / Injective are the predicates the trace specification       *)
(* evaluates on what real interpreter processes printed.                   *)
(***************************************************************************)
EXTENDS Naturals, Sequences, FiniteSets, TLC, Json, IOUtils
CONSTANTS Battery, WithRepeat

VARIABLES order, repeated
vars == <<order, repeated>>
Used == {order[i] : i \in 1..Len(order)}
Init == order = <<>> /\ repeated = FALSE
Pick == \E c \in Battery \ Used : order' = Append(order, c) /\ UNCHANGED repeated
Again == /\ WithRepeat /\ ~repeated /\ order # <<>>
         /\ \E c \in Used : order' = Append(order, c) /\ repeated' = TRUE
Next == Pick \/ Again
Spec == Init /\ [][Next]_vars

Complete == Used = Battery
\* runs: <<[p, seed, order, obs]>>; obs[i] = what process p printed for construction order[i]
Functional(runs) ==
  \A a, b \in 1..Len(runs) : \A i \in 1..Len(runs[a].order), j \in 1..Len(runs[b].order) :
     runs[a].order[i] = runs[b].order[j] => runs[a].obs[i] = runs[b].obs[j]
\* first disagreement, for the verdict line
Disagreements(runs) ==
  {<<a, i, b, j>> \in (1..Len(runs)) \X (1..12) \X (1..Len(runs)) \X (1..12) :
      /\ i <= Len(runs[a].order) /\ j <= Len(runs[b].order)
      /\ runs[a].order[i] = runs[b].order[j] /\ runs[a].obs[i] # runs[b].obs[j]}
\* head_content names: equal names exactly for equal rendered content; equal content once per document
Injective(p) == /\ (p.nameA = p.nameB) = p.sameContent
                /\ p.countInDoc = (IF p.sameContent THEN 1 ELSE 2)
                /\ p.countInText = (IF p.sameContent THEN 1 ELSE 2)

InvNoDuplicateBeforeRepeat == ~repeated => Cardinality(Used) = Len(order)
Export == Complete =>
   Serialize(ToJson([order |-> order]) \o "\n", IOEnv.EXPORT_FILE,
             [format |-> "TXT", charset |-> "UTF-8", openOptions |-> <<"WRITE", "CREATE", "APPEND">>]).exitValue = 0
=============================================================================
