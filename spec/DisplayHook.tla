----------------------------- MODULE DisplayHook -----------------------------
(* The with-block / displayhook machine: every program of at most MaxEvents    *)
(* events over Tags with nesting at most MaxDepth, an exception possible at    *)
(* every point.                                                                *)
EXTENDS DisplayHookOps, TLC, Json, IOUtils
CONSTANTS Tags, MaxEvents, MaxDepth, DispVals, CaughtVals

VARIABLES st, n, hookAtEnter, delivered, entered, hist
vars == <<st, n, hookAtEnter, delivered, entered, hist>>

Init == /\ st = Init0(Tags) /\ n = 0 /\ hist = <<>>
        /\ hookAtEnter = [t \in Tags |-> None] /\ delivered = [t \in Tags |-> 0] /\ entered = {}

Ev(act, t, g, v) == [act |-> act, t |-> t, g |-> g, v |-> v]
Take(e) == /\ Enabled(st, e) /\ st' = StepF(st, e) /\ hist' = Append(hist, e)

Enter(t, g) == /\ n < MaxEvents /\ Len(st.stack) < MaxDepth /\ n' = n + 1
               /\ Take(Ev("Enter", t, g, ""))
               /\ IF st.prev[t] = None
                  THEN hookAtEnter' = [hookAtEnter EXCEPT ![t] = st.hook] /\ entered' = entered \cup {t}
                  ELSE UNCHANGED <<hookAtEnter, entered>>
               /\ UNCHANGED delivered
Display(v) == /\ n < MaxEvents /\ n' = n + 1 /\ Take(Ev("Display", "", FALSE, v))
              /\ UNCHANGED <<hookAtEnter, delivered, entered>>
DisplayC(v) == /\ n < MaxEvents /\ n' = n + 1 /\ Take(Ev("DisplayC", "", FALSE, v))
               /\ UNCHANGED <<hookAtEnter, delivered, entered>>
Relist == /\ n < MaxEvents /\ n' = n + 1 /\ Take(Ev("Relist", "", FALSE, ""))
          /\ UNCHANGED <<hookAtEnter, delivered, entered>>
Raise == /\ n < MaxEvents /\ n' = n + 1 /\ Take(Ev("Raise", "", FALSE, ""))
         /\ UNCHANGED <<hookAtEnter, delivered, entered>>
\* always enabled while a block is open (so that every program can finish)
Exit == /\ st.stack # <<>> /\ Take(Ev("Exit", "", FALSE, ""))
        /\ delivered' = [delivered EXCEPT ![st.stack[Len(st.stack)].t] = @ + 1]
        /\ UNCHANGED <<n, hookAtEnter, entered>>
Next == (\E t \in Tags, g \in BOOLEAN : Enter(t, g)) \/ (\E v \in DispVals : Display(v)) \/ (\E v \in CaughtVals : DisplayC(v))
        \/ Raise \/ Exit \/ Relist
Spec == Init /\ [][Next]_vars

\* C17 at design level
Restore == [][ (st.stack # <<>> /\ st'.stack = SubSeq(st.stack, 1, Len(st.stack) - 1))
                  => st'.hook = hookAtEnter[st.stack[Len(st.stack)].t] ]_vars
BaseWhenIdle == st.stack = <<>> => st.hook = "base"
ExactlyOnce == \A t \in Tags : delivered[t] = IF t \in entered /\ ~Active(st, t) THEN 1 ELSE 0
ChainOk == \A i \in 1..Len(st.stack) : st.prev[st.stack[i].t] = IF i = 1 THEN "base" ELSE st.stack[i - 1].t
HookIsInnermost == st.hook = IF st.stack = <<>> THEN "base" ELSE st.stack[Len(st.stack)].t
\* re-entering an active tag leaves the chain intact
ReenterIntact == [][ (\E t \in Tags : Active(st, t) /\ hist' # hist /\ hist'[Len(hist')].act = "Enter" /\ hist'[Len(hist')].t = t)
                       => (st'.hook = st.hook /\ st'.prev = st.prev /\ st'.kids = st.kids /\ st'.stack = st.stack) ]_vars

View == <<st, n, hookAtEnter, delivered, entered>>
Export == (st.stack = <<>> /\ hist # <<>> /\ (n = MaxEvents \/ n >= 2)) =>
   Serialize(ToJson([events |-> hist]) \o "\n", IOEnv.EXPORT_FILE,
             [format |-> "TXT", charset |-> "UTF-8", openOptions |-> <<"WRITE", "CREATE", "APPEND">>]).exitValue = 0
=============================================================================
