--------------------------- MODULE DisplayHookInd ---------------------------
(***************************************************************************)
(* An INDUCTIVE argument for the hook-chain part of C17, checked by TLC:   *)
(* the initial predicate is the invariant itself (every type-correct state *)
(* over Tags that satisfies IndInv, whether or not a bounded program can   *)
(* reach it), and TLC checks that every step of every event leads to a     *)
(* state that satisfies IndInv again and restores the hook recorded by the *)
(* chain.  Together with Init0 => IndInv (checked as ASSUME) this covers   *)
(* programs of ANY length over Tags (nesting is bounded by the number of   *)
(* tags because an active tag cannot be entered again).                    *)
(* The collected children and the base log do not influence the chain and  *)
(* are projected away after every step (they would make the space infinite).*)
(***************************************************************************)
EXTENDS DisplayHookOps, FiniteSets, TLC
CONSTANTS Tags, DispVals

VARIABLE st
Empty == [t \in Tags |-> <<>>]
Forget(s) == [s EXCEPT !.kids = Empty, !.base = <<>>]

\* all stacks of distinct tags, each block guarded or not
RECURSIVE Stacks(_)
Stacks(T) == {<<>>} \cup UNION {{<<[t |-> t, g |-> g]>> \o s : s \in Stacks(T \ {t}), g \in BOOLEAN} : t \in T}
Hooks == Tags \cup {"base"}
\* constant-level definitions: evaluated once by TLC
AllStacks == Stacks(Tags)
AllPrevs == [Tags -> Hooks \cup {None}]
TypeOK == /\ st.hook \in Hooks /\ st.prev \in AllPrevs /\ st.stack \in AllStacks
          /\ st.exc \in {None, "User", "TypeError", "RuntimeError"} /\ st.kids = Empty /\ st.base = <<>>

HookIsInnermost == st.hook = IF st.stack = <<>> THEN "base" ELSE st.stack[Len(st.stack)].t
ChainOk == \A i \in 1..Len(st.stack) : st.prev[st.stack[i].t] = IF i = 1 THEN "base" ELSE st.stack[i - 1].t
\* a tag that is not active and was never entered has no saved hook... is not needed; what IS needed:
ActiveHaveSaved == \A i \in 1..Len(st.stack) : st.prev[st.stack[i].t] # None
IndInv == TypeOK /\ HookIsInnermost /\ ChainOk /\ ActiveHaveSaved

\* the base case
ASSUME LET s == Init0(Tags) IN s.hook = "base" /\ s.stack = <<>> /\ \A t \in Tags : s.prev[t] = None

\* the candidates are enumerated stack first, so that only chain-consistent prev maps are built
IndInit == \E sk \in AllStacks, ex \in {None, "User", "TypeError", "RuntimeError"}, pv \in AllPrevs :
              /\ st = [hook |-> IF sk = <<>> THEN "base" ELSE sk[Len(sk)].t, prev |-> pv, kids |-> Empty, base |-> <<>>,
                        stack |-> sk, exc |-> ex]
              /\ IndInv
Events == {[act |-> "Enter", t |-> t, g |-> g, v |-> ""] : t \in Tags, g \in BOOLEAN}
          \cup {[act |-> "Display", t |-> "", g |-> FALSE, v |-> v] : v \in DispVals}
          \cup {[act |-> "Raise", t |-> "", g |-> FALSE, v |-> ""], [act |-> "Exit", t |-> "", g |-> FALSE, v |-> ""]}
Next == \E e \in Events : Enabled(st, e) /\ st' = Forget(StepF(st, e))
IndSpec == IndInit /\ [][Next]_st

\* C17: on every exit (normal or while unwinding) the hook becomes the one installed when the block was entered,
\* i.e. the enclosing block's hook, or the base hook for the outermost block
RestoreInd == [][ (st.stack # <<>> /\ st'.stack = SubSeq(st.stack, 1, Len(st.stack) - 1))
                    => st'.hook = (IF Len(st.stack) = 1 THEN "base" ELSE st.stack[Len(st.stack) - 1].t) ]_st
\* entering a tag whose block is still active changes nothing but the exception in flight
ReenterInd == [][ (\E t \in Tags : Active(st, t) /\ st'.stack = st.stack /\ st' # st /\ st'.exc # st.exc)
                    => (st'.hook = st.hook /\ st'.prev = st.prev) ]_st
=============================================================================
