--------------------------- MODULE DisplayHookOps ---------------------------
(***************************************************************************)
(* C17: `with tag:` blocks and sys.displayhook.                            *)
(* State record s:                                                         *)
(*   hook   the current sys.displayhook: "base" or the tag whose wrapped    *)
(*          append is installed                                            *)
(*   prev   [tag -> saved hook or "None"]  (Tag.prev_displayhook)           *)
(*   kids   [tag -> children collected so far] (node labels)                *)
(*   base   what the outermost hook has been handed                         *)
(*   stack  the open with-blocks, innermost last: [t, g] (g: the with       *)
(*          statement sits in a try/except that swallows)                   *)
(*   exc    "None" or the exception in flight                               *)
(* Values that can be displayed: str, num, zero (0), empty (""), none,      *)
(* dots (Ellipsis), repr (_repr_html_ object), tag (a Tag that is not a     *)
(* context here), tfy (tagifiable), list (["a", 1]), bad (unsupported).     *)
(***************************************************************************)
EXTENDS Naturals, Sequences, FiniteSets

None == "None"
\* dep: one HTMLDependency object displayed every time; depeq: an equal but distinct dependency each time;
\* false (False), zerof (0.0), emptyhtml (HTML("")): falsy but valid; emptydict ({}), emptyset (set()): falsy and unsupported
Vals == {"str", "num", "zero", "empty", "none", "dots", "repr", "tag", "tfy", "list", "bad", "badlist",
         "dep", "depeq", "false", "zerof", "emptyhtml", "emptydict", "emptyset", "reprtuple", "reprstr",
         "fraction", "decimal", "complex", "itfy", "ibad"}
\* (numbers that are not int / float - Fraction, Decimal, complex - are not valid children)
\* itfy / ibad: two instances of ONE class, the first of which was given a tagify() of its own
BadVals == {"bad", "badlist", "emptydict", "emptyset", "fraction", "decimal", "complex", "ibad"}

\* what append(value) stores, after the wrapper's case analysis (wrap_displayhook_handler)
Stored(v) ==
  CASE v = "str"   -> <<"s:text">>
    [] v = "num"   -> <<"s:7">>
    [] v = "zero"  -> <<"s:0">>
    [] v = "empty" -> <<"s:">>
    [] v \in {"repr", "reprtuple", "reprstr"} -> <<"h:<r>">>   \* _repr_html_() result kept as HTML, also when the
                                                              \* object is a tuple / str subclass as well
    [] v = "tag"   -> <<"t:other">>
    [] v \in {"tfy", "itfy"} -> <<"f:obj">>
    [] v = "list"  -> <<"s:a", "s:1", "s:a">>      \* [sep, 1, sep] with sep = ["a"]: the same inner list object twice
    [] v \in {"dep", "depeq"} -> <<"d:shared">>   \* every display appends, also of a dependency that is already a child
    [] v = "false" -> <<"s:False">>
    [] v = "zerof" -> <<"s:0.0">>
    [] v = "emptyhtml" -> <<"h:">>
    [] OTHER       -> <<>>                 \* none, dots: ignored

Active(s, t) == \E i \in 1..Len(s.stack) : s.stack[i].t = t

Init0(Tags) == [hook |-> "base", prev |-> [t \in Tags |-> None], kids |-> [t \in Tags |-> <<>>],
                base |-> <<>>, stack |-> <<>>, exc |-> None]

\* hand `item` to hook h
Deliver(s, h, item) == IF h = "base" THEN [s EXCEPT !.base = Append(@, item)]
                       ELSE [s EXCEPT !.kids[h] = Append(@, item)]

\* `with t:` (g: guarded by try/except).  Entering a tag whose block is still active raises
\* RuntimeError from __enter__ and changes nothing; __exit__ is not called for it.
EnterF(s, t, g) ==
  IF s.prev[t] # None
  THEN [s EXCEPT !.exc = IF g THEN None ELSE "RuntimeError"]
  ELSE [s EXCEPT !.prev[t] = s.hook, !.hook = t, !.stack = Append(@, [t |-> t, g |-> g])]

\* an expression statement's value reaches sys.displayhook
DisplayF(s, v) ==
  \* an unsupported value - alone, or after valid items inside a displayed list - is rejected as a whole
  IF v \in BadVals THEN [s EXCEPT !.exc = "TypeError"]
  ELSE IF s.hook = "base" THEN (IF v \in {"none"} THEN s ELSE [s EXCEPT !.base = @ \o <<v>>])
  ELSE [s EXCEPT !.kids[s.hook] = @ \o Stored(v)]

RaiseF(s) == [s EXCEPT !.exc = "User"]

\* leaving the innermost block, normally or while unwinding: restore, then hand the tag over
ExitF(s) ==
  LET top == s.stack[Len(s.stack)]  h == s.prev[top.t]
      s1 == [s EXCEPT !.hook = h, !.stack = SubSeq(@, 1, Len(@) - 1),
                      !.exc = IF top.g THEN None ELSE s.exc]
  IN Deliver(s1, h, "t:" \o top.t)

\* event -> next state
StepF(s, e) ==
  CASE e.act = "Enter"   -> EnterF(s, e.t, e.g)
    [] e.act = "Display" -> DisplayF(s, e.v)
    \* the same inside a try/except placed IN the block: an invalid value is rejected right there and nothing is left behind
    [] e.act = "DisplayC" -> IF e.v \in BadVals THEN s ELSE DisplayF(s, e.v)
    \* the innermost open tag gets a NEW child list holding the same children (tag.children = TagList(...)): the block
    \* belongs to the tag, not to the list object it had when it was entered
    [] e.act = "Relist"  -> s
    [] e.act = "Raise"   -> RaiseF(s)
    [] e.act = "Exit"    -> ExitF(s)
\* which events a well-formed program can produce in state s
Enabled(s, e) ==
  CASE e.act = "Enter"   -> s.exc = None /\ (s.prev[e.t] # None => Active(s, e.t))
    [] e.act \in {"Display", "DisplayC", "Relist"} -> s.exc = None /\ s.stack # <<>>
    [] e.act = "Raise"   -> s.exc = None /\ s.stack # <<>>
    [] e.act = "Exit"    -> s.stack # <<>>
=============================================================================
