------------------------------ MODULE Document ------------------------------
(* Enumerates document contents by tree growth (as Render does) over element  *)
(* kinds html / head / body / div / span, text, and four dependency kinds,    *)
(* with and without html attribute arguments, and checks the consequences C11 *)
(* states on the expected document tree.                                      *)
EXTENDS DocumentOps, TLC, Json, IOUtils
CONSTANTS MaxNodes, MaxDepth, Kinds

VARIABLES tree, phase, args
vars == <<tree, phase, args>>

TagK == {"html", "head", "body", "div", "span"}
K(k, c) == [k |-> k, c |-> c]
RECURSIVE Size(_), SpineDepth(_), AppendAt(_, _, _)
Size(x) == 1 + FoldLeft(LAMBDA a, ch : a + Size(ch), 0, x.c)
SpineDepth(x) == IF Len(x.c) > 0 /\ x.c[Len(x.c)].k \in TagK THEN 1 + SpineDepth(x.c[Len(x.c)]) ELSE 0
AppendAt(x, j, new) == IF j = 0 THEN [x EXCEPT !.c = Append(@, new)]
                       ELSE [x EXCEPT !.c[Len(x.c)] = AppendAt(x.c[Len(x.c)], j - 1, new)]

\* code points of short ASCII words used by the model's fixed dependencies
cA == <<97>>  cB == <<98>>  c10 == <<49, 46, 48>>  c20 == <<50, 46, 48>>  c01 == <<48, 46, 49>>  c00 == <<48, 46, 48>>
cLib == <<108, 105, 98>>
D1 == [name |-> cA, vstr |-> c10, ver |-> <<1, 0>>, src |-> "local", href |-> <<>>, metas |-> <<>>,
       links |-> <<<<99, 46, 99, 115, 115>>>>, scripts |-> <<<<115, 46, 106, 115>>>>, head |-> <<>>]
D2 == [name |-> cA, vstr |-> c20, ver |-> <<2, 0>>, src |-> "local", href |-> <<>>, metas |-> <<[n |-> <<109>>, c |-> <<118>>]>>,
       links |-> <<>>, scripts |-> <<>>, head |-> <<>>]
D3 == [name |-> cB, vstr |-> c01, ver |-> <<0, 1>>, src |-> "url", href |-> <<104, 58, 47, 47, 117, 47>>, metas |-> <<>>,
       links |-> <<>>, scripts |-> <<<<106, 46, 106, 115>>>>, head |-> <<>>]
HC == [name |-> <<104, 99>>, vstr |-> c00, ver |-> <<0, 0>>, src |-> "none", href |-> <<>>, metas |-> <<>>, links |-> <<>>,
       scripts |-> <<>>, head |-> <<Tag("title", <<>>, <<Text(<<84>>)>>)>>]
D0 == [name |-> <<109>>, vstr |-> <<48, 46, 51>>, ver |-> <<0, 3>>, src |-> "none", href |-> <<>>, metas |-> <<>>, links |-> <<>>,
       scripts |-> <<>>, head |-> <<>>]
DepOf(k) == CASE k = "d0" -> D0 [] k = "d1" -> D1 [] k = "d2" -> D2 [] k = "d3" -> D3 [] k = "hc" -> HC

RECURSIVE ToNode(_)
ToNode(x) ==
  IF x.k \in TagK THEN Tag(x.k, IF x.k \in {"html", "body", "head"} THEN <<A("id", <<120>>)>> ELSE <<>>, [i \in 1..Len(x.c) |-> ToNode(x.c[i])])
  ELSE IF x.k = "text" THEN Text(<<116>>)
  ELSE [k |-> "dep", name |-> "", attrs |-> <<>>, c |-> <<>>, t |-> <<>>, d |-> DepOf(x.k)]
Content == [i \in 1..Len(tree.c) |-> ToNode(tree.c[i])]

Init == tree = K("root", <<>>) /\ phase = "build" /\ args \in {<<>>, <<A("lang", <<101, 110>>)>>, <<A("id", <<121>>), A("lang", <<101, 110>>)>>}
Grow == /\ phase = "build" /\ Size(tree) < MaxNodes + 1
        /\ \E j \in 0..SpineDepth(tree), k \in Kinds :
              /\ j + 1 <= MaxDepth
              /\ tree' = AppendAt(tree, j, K(k, <<>>))
        /\ UNCHANGED <<phase, args>>
Finish == phase = "build" /\ phase' = "done" /\ UNCHANGED <<tree, args>>
Next == Grow \/ Finish
Spec == Init /\ [][Next]_vars

Doc == DocTree(Content, args, cLib, TRUE)
R == Resolved(Content)
HeadOf(doc) == doc.c[FirstHead(doc.c)]
InvOneRoot == phase = "done" => Doc.name = "html" /\ Cardinality({i \in 1..Len(Doc.c) : Doc.c[i].k = "tag" /\ Doc.c[i].name = "head"}) >= 1
InvHeadStartsWithCharset == phase = "done" =>
   LET h == HeadOf(Doc) IN h.c[1].name = "meta" /\ h.c[1].attrs = <<A("charset", S_utf8)>>
InvListingIffDeps == phase = "done" =>
   LET h == HeadOf(Doc)
       n == Cardinality({i \in 1..Len(h.c) : h.c[i].k = "tag" /\ h.c[i].name = "script" /\ h.c[i].attrs = <<A("type", S_htmldeps)>>})
   IN n = IF R = <<>> THEN 0 ELSE 1
\* every dependency's links/scripts/metas occur exactly once in the whole document, all inside <head>
InvHoistedOnce == phase = "done" =>
   LET want == FoldLeft(LAMBDA a, d : a + Len(d.links), 0, R) IN
   CountTags(Doc, "link") = want /\ CountTags(HeadOf(Doc), "link") = want
\* the transcription of the code and the declarative document tree agree
InvCodeIsSpec == phase = "done" =>
   \A pre \in {<<>>, cLib}, iv \in BOOLEAN :
      RenderedView(GenTreeCode(Content, args, pre, iv)) = DocTree(Content, args, pre, iv)
InvUserRootKept == phase = "done" => (IsLone(Content, "html") => Doc.attrs = MergeArgs(Content[1].attrs, args))
Export == phase = "done" =>
   Serialize(ToJson([tree |-> tree, args |-> args]) \o "\n", IOEnv.EXPORT_FILE,
             [format |-> "TXT", charset |-> "UTF-8", openOptions |-> <<"WRITE", "CREATE", "APPEND">>]).exitValue = 0
=============================================================================
