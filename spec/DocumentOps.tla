---------------------------- MODULE DocumentOps ----------------------------
(***************************************************************************)
(* C11: what HTMLDocument.render() must produce, as an element tree in the *)
(* format of ParseBackOps, computed from an abstract description of the    *)
(* document's content.                                                     *)
(*                                                                         *)
(* Content node: [k, name, attrs, c, t, d]                                 *)
(*   k = "tag"  : name, attrs = <<[n, v]>>, c = children                   *)
(*   k = "text" : t = code points                                          *)
(*   k = "dep"  : d = dependency definition                                *)
(* Dependency definition d:                                                *)
(*   [name, vstr, ver, src, href, metas, links, scripts, head]             *)
(*   name, vstr: code points; ver: release segments (for ordering);        *)
(*   src = "local" | "url" | "none"; href: code points (url source);       *)
(*   metas = <<[n, c]>> (code points); links / scripts = file names;       *)
(*   head = content nodes (tags/text only).                                *)
(* Everything textual is a sequence of code points; tag and attribute      *)
(* names are strings (as in ParseBackOps).                                 *)
(***************************************************************************)
EXTENDS ParseBackOps, DepOps

Tag(name, attrs, c) == [k |-> "tag", name |-> name, attrs |-> attrs, c |-> c, t |-> <<>>]
Text(t) == [k |-> "text", name |-> "", attrs |-> <<>>, c |-> <<>>, t |-> t]
A(n, v) == [n |-> n, v |-> v]

SLASH == 47  DASH == 45  LBR == 91  RBR == 93  SEMIC == 59
S_utf8 == <<117, 116, 102, 45, 56>>                                   \* utf-8
S_stylesheet == <<115, 116, 121, 108, 101, 115, 104, 101, 101, 116>>  \* stylesheet
S_htmldeps == <<97, 112, 112, 108, 105, 99, 97, 116, 105, 111, 110, 47, 104, 116, 109, 108, 45, 100, 101, 112,
                101, 110, 100, 101, 110, 99, 105, 101, 115>>          \* application/html-dependencies

-----------------------------------------------------------------------------
(* dependencies of the content: document order, every nesting level, resolved *)
RECURSIVE DepsOf(_)
DepsOf(x) == IF x.k = "dep" THEN <<x.d>>
             ELSE FlattenSeq([i \in 1..Len(x.c) |-> DepsOf(x.c[i])])
AllDeps(content) == FlattenSeq([i \in 1..Len(content) |-> DepsOf(content[i])])
\* ResolveSpec works on [name, ver, pl]; keep the definition as the payload
Resolved(content) == LET ds == AllDeps(content)
                         r == ResolveSpec([i \in 1..Len(ds) |-> Dep(ds[i].name, ds[i].ver, ds[i])])
                     IN [i \in 1..Len(r) |-> r[i].pl]

\* the content without dependency nodes (what is left is rendered "ordinarily")
RECURSIVE NoDeps(_)
NoDeps(x) == [x EXCEPT !.c = LET keep == SelectSeq(x.c, LAMBDA y : y.k # "dep") IN [i \in 1..Len(keep) |-> NoDeps(keep[i])]]
NoDepsSeq(s) == LET keep == SelectSeq(s, LAMBDA y : y.k # "dep") IN [i \in 1..Len(keep) |-> NoDeps(keep[i])]

-----------------------------------------------------------------------------
(* markup of one dependency: meta, link, script, head - in that order *)
JoinPath(base, f) == IF base = <<>> THEN f ELSE IF base[Len(base)] = SLASH THEN base \o f ELSE base \o <<SLASH>> \o f
\* prefix/name[-version] for a local source, the href for a URL source
BaseHref(d, prefix, inclver) ==
  CASE d.src = "url"   -> d.href
    [] d.src = "none"  -> <<>>
    [] d.src = "local" -> LET nm == d.name \o (IF inclver THEN <<DASH>> \o d.vstr ELSE <<>>) IN JoinPath(prefix, nm)
DepMarkup(d, prefix, inclver) ==
  LET base == BaseHref(d, prefix, inclver) IN
  [i \in 1..Len(d.metas) |-> Tag("meta", <<A("name", d.metas[i].n), A("content", d.metas[i].c)>>, <<>>)]
  \o [i \in 1..Len(d.links) |-> Tag("link", <<A("href", JoinPath(base, d.links[i])), A("rel", S_stylesheet)>>, <<>>)]
  \o [i \in 1..Len(d.scripts) |-> Tag("script", <<A("src", JoinPath(base, d.scripts[i]))>>, <<>>)]
  \o d.head

\* name[version] joined by ';'
Listing(R) == FlattenSeq([i \in 1..Len(R) |->
                (IF i > 1 THEN <<SEMIC>> ELSE <<>>) \o R[i].name \o <<LBR>> \o R[i].vstr \o <<RBR>>])

HeadChildren(userHeadKids, R, prefix, inclver) ==
  << Tag("meta", <<A("charset", S_utf8)>>, <<>>) >>
  \o NoDepsSeq(userHeadKids)
  \o (IF R = <<>> THEN <<>> ELSE << Tag("script", <<A("type", S_htmldeps)>>, <<Text(Listing(R))>>) >>)
  \o FlattenSeq([i \in 1..Len(R) |-> DepMarkup(R[i], prefix, inclver)])

-----------------------------------------------------------------------------
(* the document tree *)
IsLone(content, nm) == Len(content) = 1 /\ content[1].k = "tag" /\ content[1].name = nm
\* later attribute arguments replace / extend the user's <html> attributes (TagAttrDict.update)
MergeArgs(attrs, args) ==
  LET RECURSIVE M(_, _)
      M(acc, i) == IF i > Len(args) THEN acc
                   ELSE LET j == {k \in 1..Len(acc) : acc[k].n = args[i].n} IN
                        M(IF j = {} THEN Append(acc, args[i]) ELSE [acc EXCEPT ![CHOOSE k \in j : TRUE] = args[i]], i + 1)
  IN M(attrs, 1)
FirstHead(kids) == LET h == {i \in 1..Len(kids) : kids[i].k = "tag" /\ kids[i].name = "head"} IN
                   IF h = {} THEN 0 ELSE Min(h)

DocTree(content, args, prefix, inclver) ==
  LET R == Resolved(content) IN
  IF IsLone(content, "html") THEN
     LET html == content[1]
         kids == SelectSeq(html.c, LAMBDA y : y.k # "dep")
         hi == FirstHead(kids)
         newhead(old) == Tag("head", old.attrs, HeadChildren(old.c, R, prefix, inclver))
         kids2 == IF hi = 0 THEN <<Tag("head", <<>>, HeadChildren(<<>>, R, prefix, inclver))>> \o NoDepsSeq(kids)
                  ELSE [i \in 1..Len(kids) |-> IF i = hi THEN newhead(kids[i]) ELSE NoDeps(kids[i])]
     IN Tag("html", MergeArgs(html.attrs, args), kids2)
  ELSE
     LET body == IF IsLone(content, "body") THEN NoDeps(content[1]) ELSE Tag("body", <<>>, NoDepsSeq(content))
     IN Tag("html", args, << Tag("head", <<>>, HeadChildren(<<>>, R, prefix, inclver)), body >>)

DocEvents(content, args, prefix, inclver) ==
  <<Ev("other", "doctype", <<>>, <<>>)>> \o ElementView(DocTree(content, args, prefix, inclver))

-----------------------------------------------------------------------------
(* Code-shaped: HTMLDocument._gen_html_tag_tree and _hoist_head_content, operating on *)
(* the tagified content with its dependency nodes still in place (the renderer skips  *)
(* them later: RenderedView).  TLC checks RenderedView(GenTreeCode(...)) = DocTree(...) *)
HoistCode(x, prefix, inclver) ==
  LET kids == x.c
      heads == {i \in 1..Len(kids) : kids[i].k = "tag" /\ kids[i].name = "head"}
      \* `if head_index is None: res.insert(0, Tag("head"))`
      kids1 == IF heads = {} THEN <<Tag("head", <<>>, <<>>)>> \o kids ELSE kids
      h == IF heads = {} THEN 1 ELSE Min(heads)
      deps == Resolved(<<x>>)                                   \* x.get_dependencies()
      filled == <<Tag("meta", <<A("charset", S_utf8)>>, <<>>)>>   \* head.insert(0, meta charset)
                \o kids1[h].c
                \o (IF deps = <<>> THEN <<>> ELSE <<Tag("script", <<A("type", S_htmldeps)>>, <<Text(Listing(deps))>>)>>)
                \o FlattenSeq([i \in 1..Len(deps) |-> DepMarkup(deps[i], prefix, inclver)])
  IN [x EXCEPT !.c = [kids1 EXCEPT ![h] = [kids1[h] EXCEPT !.c = filled]]]
GenTreeCode(content, args, prefix, inclver) ==
  IF IsLone(content, "html")
  THEN HoistCode([content[1] EXCEPT !.attrs = MergeArgs(@, args)], prefix, inclver)
  ELSE LET body == IF IsLone(content, "body") THEN content[1] ELSE Tag("body", <<>>, content)
       IN HoistCode(Tag("html", args, <<Tag("head", <<>>, <<>>), body>>), prefix, inclver)
RenderedView(x) == NoDeps(x)

\* consequences stated by C11, checked on the expected tree itself (design level)
RECURSIVE CountTags(_, _)
CountTags(x, nm) == (IF x.k = "tag" /\ x.name = nm THEN 1 ELSE 0)
                    + FoldLeft(LAMBDA a, ch : a + CountTags(ch, nm), 0, x.c)
=============================================================================
