------------------------------- MODULE Escape -------------------------------
(***************************************************************************)
(* Enumerator machine for html_escape: every string over Alphabet of       *)
(* length <= MaxLen is reached exactly once (by appending one character),  *)
(* with both escape tables.  TLC checks that the transcription of the code *)
(* (EscapeOps!Escape) satisfies the property-level reading on every one of *)
(* them, and exports (input, expected output) for replay against the code. *)
(***************************************************************************)
EXTENDS EscapeOps
-----------------------------------------------------------------------------
(* Enumerator machine: every string over Alphabet of length <= MaxLen, once *)

CONSTANTS MaxLen
\* specials + 'x' (any ordinary character) + the letters that could forge a reference
Alphabet == {AMP, LT, GT, DQ, SQ, CR, LF, 120, 97, SEMI, HASH}

VARIABLES s, attr
vars == <<s, attr>>
Init == s = <<>> /\ attr \in BOOLEAN
Grow == Len(s) < MaxLen /\ \E c \in Alphabet : s' = Append(s, c) /\ UNCHANGED attr
Spec == Init /\ [][Grow]_vars

\* design-level invariants (the model of the code satisfies the property-level reading)
InvInert       == Inert(s, Escape(s, attr), Specials(attr))
InvRoundTrip   == Decode(Escape(s, attr), 1) = s
InvNoRaw       == NoRawSpecial(Escape(s, attr), Specials(attr))
InvHomomorphic == Escape(s, attr) = FlattenSeq([i \in 1..Len(s) |-> Escape(<<s[i]>>, attr)])
InvFastPath    == (Escape(s, attr) = s) <=> (\A i \in 1..Len(s) : s[i] \notin Specials(attr))
\* a text-escaped string is NOT safe in an attribute (why D1 was a defect)
\* export for replay
Export == Serialize(ToJson([s |-> s, attr |-> attr, out |-> Escape(s, attr)]) \o "\n", IOEnv.EXPORT_FILE,
             [format |-> "TXT", charset |-> "UTF-8", openOptions |-> <<"WRITE", "CREATE", "APPEND">>]).exitValue = 0
=============================================================================
