----------------------------- MODULE EscapeOps -----------------------------
(***************************************************************************)
(* htmltools._util.html_escape and the character-level obligations of      *)
(* C02 (text children), C03 (attribute values) and C04 (trusted markup).   *)
(*                                                                         *)
(* Text is a sequence of Unicode code points (TLC has no character type).  *)
(* Two descriptions stand next to each other:                              *)
(*   - Escape(s, attr): a transcription of the code *in the code's shape*  *)
(*     (regex fast path, then one str.replace pass per table entry in dict *)
(*     order), because that shape is where regressions live;               *)
(*   - Match(...) / Decode(...): the property-level reading, written        *)
(*     independently: every special character of the payload is replaced   *)
(*     by SOME character reference that decodes to it, every other         *)
(*     character is emitted unchanged.                                     *)
(* The enumerator machine at the bottom visits every string over a small   *)
(* alphabet exactly once; TLC checks the invariants on each and exports    *)
(* (input, expected output) pairs for replay against the real function.    *)
(***************************************************************************)
EXTENDS Naturals, Sequences, FiniteSets, SequencesExt, TLC, Json, IOUtils

AMP == 38  LT == 60  GT == 62  DQ == 34  SQ == 39  CR == 13  LF == 10
SEMI == 59 HASH == 35

\* literal reference texts as code point sequences
RefAmp  == <<38, 97, 109, 112, 59>>        \* &amp;
RefGt   == <<38, 103, 116, 59>>            \* &gt;
RefLt   == <<38, 108, 116, 59>>            \* &lt;
RefQuot == <<38, 113, 117, 111, 116, 59>>  \* &quot;
RefApos == <<38, 97, 112, 111, 115, 59>>   \* &apos;
RefCr   == <<38, 35, 49, 51, 59>>          \* &#13;
RefLf   == <<38, 35, 49, 48, 59>>          \* &#10;

\* HTML_ESCAPE_TABLE / HTML_ATTRS_ESCAPE_TABLE in dict order ('&' must come first)
TextTable == << <<AMP, RefAmp>>, <<GT, RefGt>>, <<LT, RefLt>> >>
AttrTable == TextTable \o << <<DQ, RefQuot>>, <<SQ, RefApos>>, <<CR, RefCr>>, <<LF, RefLf>> >>
Keys(tbl) == {tbl[i][1] : i \in 1..Len(tbl)}

TextSpecials == {AMP, LT, GT}
AttrSpecials == {AMP, LT, GT, DQ, SQ, CR, LF}
Specials(attr) == IF attr THEN AttrSpecials ELSE TextSpecials

-----------------------------------------------------------------------------
(* Transcription of html_escape *)

\* str.replace(key, ref) for a one-character key: one left-to-right pass
Replace1(s, key, ref) == FlattenSeq([i \in 1..Len(s) |-> IF s[i] = key THEN ref ELSE <<s[i]>>])

RECURSIVE Passes(_, _, _)
Passes(s, tbl, i) == IF i > Len(tbl) THEN s
                     ELSE Passes(Replace1(s, tbl[i][1], tbl[i][2]), tbl, i + 1)

\* `if not re.search("|".join(table), text): return text`
FastPath(s, tbl) == \A i \in 1..Len(s) : s[i] \notin Keys(tbl)

Escape(s, attr) == LET tbl == IF attr THEN AttrTable ELSE TextTable IN
                   IF FastPath(s, tbl) THEN s ELSE Passes(s, tbl, 1)

-----------------------------------------------------------------------------
(* Property level: character references *)

IsDigit(c) == c \in 48..57
IsHex(c)   == c \in 48..57 \/ c \in 65..70 \/ c \in 97..102
HexVal(c)  == IF c \in 48..57 THEN c - 48 ELSE IF c \in 65..70 THEN c - 55 ELSE c - 87
NoRef == 1114112    \* "not a character reference" (one past the last code point)

RECURSIVE NumVal(_, _, _, _)
NumVal(body, i, base, acc) ==
  IF i > Len(body) THEN acc
  ELSE IF acc > 1114111 THEN NoRef
  ELSE NumVal(body, i + 1, base, acc * base + (IF base = 16 THEN HexVal(body[i]) ELSE body[i] - 48))

\* value of the reference whose text between '&' and ';' is body
RefValue(body) ==
  CASE body = <<97, 109, 112>>       -> AMP
    [] body = <<108, 116>>           -> LT
    [] body = <<103, 116>>           -> GT
    [] body = <<113, 117, 111, 116>> -> DQ
    [] body = <<97, 112, 111, 115>>  -> SQ
    [] Len(body) >= 3 /\ Len(body) <= 8 /\ body[1] = HASH /\ body[2] \in {120, 88}
         /\ \A i \in 3..Len(body) : IsHex(body[i]) -> NumVal(body, 3, 16, 0)
    [] Len(body) >= 2 /\ Len(body) <= 8 /\ body[1] = HASH
         /\ \A i \in 2..Len(body) : IsDigit(body[i]) -> NumVal(body, 2, 10, 0)
    [] OTHER -> NoRef

\* position of the first ';' at or after j (0 if none within 10 characters)
SemiAfter(seg, j) ==
  LET c == {k \in j..(IF Len(seg) < j + 10 THEN Len(seg) ELSE j + 10) : seg[k] = SEMI}
  IN IF c = {} THEN 0 ELSE CHOOSE k \in c : \A m \in c : k <= m

(* Match(chars, modes, seg, sp): the emitted segment seg is, position by      *)
(* position, the payload chars where                                        *)
(*   modes[i] = "esc": chars[i] \in sp is written as some reference that      *)
(*                     decodes to it, any other character as itself;         *)
(*   modes[i] = "raw": the character itself, whatever it is (trusted markup).*)
(* Returns 0 when it matches, otherwise the 1-based payload index at which   *)
(* it first fails (Len+1: trailing garbage in seg).                          *)
\* One step: the payload character i against the segment at j.  Returns the next j,
\* or 0 when the segment does not continue as required.  With loose = TRUE a
\* plain-origin special may also appear as itself (used where a property speaks
\* about WHICH text is stored, not about how it is escaped).
RefAt(seg, j, c) == /\ seg[j] = AMP
                    /\ LET k == SemiAfter(seg, j + 1) IN k # 0 /\ RefValue(SubSeq(seg, j + 1, k - 1)) = c
StepAt(chars, modes, seg, sp, loose, i, j) ==
  IF j > Len(seg) THEN 0
  ELSE IF modes[i] = "raw" \/ chars[i] \notin sp
       THEN IF seg[j] = chars[i] THEN j + 1 ELSE 0
       ELSE IF RefAt(seg, j, chars[i]) THEN SemiAfter(seg, j + 1) + 1
            ELSE IF loose /\ seg[j] = chars[i] THEN j + 1 ELSE 0

\* The walk is split into blocks of BlockLen payload characters so that TLC's
\* evaluation depth stays at Len/BlockLen + BlockLen (a plain recursion over a
\* 2 400-character segment was measured to be quadratic in TLC 1.8).
BlockLen == 48
\* walk characters i..hi; result <<next i, next j>> with next j = 0 on failure (next i = failing index)
RECURSIVE WalkBlock(_, _, _, _, _, _, _, _)
WalkBlock(chars, modes, seg, sp, loose, i, j, hi) ==
  IF i > hi THEN <<i, j>>
  ELSE LET nj == StepAt(chars, modes, seg, sp, loose, i, j) IN
       IF nj = 0 THEN <<i, 0>> ELSE WalkBlock(chars, modes, seg, sp, loose, i + 1, nj, hi)
RECURSIVE MatchAt(_, _, _, _, _, _, _)
MatchAt(chars, modes, seg, sp, loose, i, j) ==
  IF i > Len(chars) THEN (IF j = Len(seg) + 1 THEN 0 ELSE i)
  ELSE LET hi == IF i + BlockLen - 1 < Len(chars) THEN i + BlockLen - 1 ELSE Len(chars)
           r  == WalkBlock(chars, modes, seg, sp, loose, i, j, hi)
       IN IF r[2] = 0 THEN r[1] ELSE MatchAt(chars, modes, seg, sp, loose, r[1], r[2])

Match(chars, modes, seg, sp) == MatchAt(chars, modes, seg, sp, FALSE, 1, 1)
MatchLoose(chars, modes, seg, sp) == MatchAt(chars, modes, seg, sp, TRUE, 1, 1)
AllEsc(s) == [i \in 1..Len(s) |-> "esc"]
AllRaw(s) == [i \in 1..Len(s) |-> "raw"]
Inert(p, seg, sp) == Match(p, AllEsc(p), seg, sp) = 0

\* independent decoder: left-to-right tokenizer for character references
\* DecodeStep(s, i) = <<decoded character, next i>>
DecodeStep(s, i) ==
  IF s[i] = AMP /\ SemiAfter(s, i + 1) # 0 /\ RefValue(SubSeq(s, i + 1, SemiAfter(s, i + 1) - 1)) # NoRef
  THEN LET k == SemiAfter(s, i + 1) IN <<RefValue(SubSeq(s, i + 1, k - 1)), k + 1>>
  ELSE <<s[i], i + 1>>
\* decode at most n characters starting at i: <<decoded, next i>>
RECURSIVE DecodeN(_, _, _, _)
DecodeN(s, i, n, acc) ==
  IF i > Len(s) \/ n = 0 THEN <<acc, i>>
  ELSE LET d == DecodeStep(s, i) IN DecodeN(s, d[2], n - 1, Append(acc, d[1]))
RECURSIVE Decode(_, _)
Decode(s, i) ==
  IF i > Len(s) THEN <<>>
  ELSE LET d == DecodeN(s, i, BlockLen, <<>>) IN d[1] \o Decode(s, d[2])

\* no special character of the context occurs raw in the segment except '&' opening a reference
NoRawSpecial(seg, sp) ==
  \A j \in 1..Len(seg) : seg[j] \in sp =>
      seg[j] = AMP /\ SemiAfter(seg, j + 1) # 0 /\ RefValue(SubSeq(seg, j + 1, SemiAfter(seg, j + 1) - 1)) # NoRef
=============================================================================
