------------------------------ MODULE HeapOps ------------------------------
(***************************************************************************)
(* The object graph of htmltools as a heap, for the properties that speak  *)
(* about identity, sharing and absence of mutation (C08, C09, C20).        *)
(*                                                                         *)
(* heap : sequence of objects, an object's id is its index.                *)
(* Obj  : [t, name, ws, a, k, items]                                       *)
(*   t = "tag"  : name, ws (add_ws), a = id of its attribute map,          *)
(*                k = id of its child list                                 *)
(*   t = "list" : items = the elements (Refs)  - a TagList / list.data     *)
(*   t = "attrs": items = <<[r |-> "kv", v |-> "name=value", n |-> html?]>> *)
(*                or Refs to objects for JSX props                         *)
(*   t = "meta" : a bare MetadataNode                                      *)
(*   t = "dep"  : an HTMLDependency, name = "name@version" (its value),    *)
(*                k = id of its head TagList (0 if none)                   *)
(*   t = "tfy"  : an object with tagify(); name = what tagify() returns    *)
(*                ("list" | "tag" | "str" | "html" | "dep"), k = id of the *)
(*                list of content it expands from                          *)
(*   t = "repr" : an object with _repr_html_ only                          *)
(*   t = "doc"  : an HTMLDocument, k = content list, a = attribute args    *)
(*   t = "jsx"  : a JSX component, name, a = props, k = children           *)
(* Ref  : [r, v, n]: r = "id" (object n) | "str" | "html" (text v) | "kv". *)
(***************************************************************************)
EXTENDS Naturals, Sequences, FiniteSets, SequencesExt

IdRef(n) == [r |-> "id", v |-> "", n |-> n]
StrRef(v) == [r |-> "str", v |-> v, n |-> 0]
Obj(t, name, ws, a, k, items) == [t |-> t, name |-> name, ws |-> ws, a |-> a, k |-> k, items |-> items]

\* the kinds of object the statement of C08 says a tagify() result shares with nothing
Mutable == {"tag", "list", "attrs", "meta", "dep"}

Succ(h, n) == LET o == h[n] IN
   (IF o.a # 0 THEN {o.a} ELSE {}) \cup (IF o.k # 0 THEN {o.k} ELSE {})
   \cup {o.items[i].n : i \in {j \in 1..Len(o.items) : o.items[j].r = "id"}}
RECURSIVE ReachFrom(_, _, _)
ReachFrom(h, frontier, seen) ==
  IF frontier = {} THEN seen
  ELSE LET nxt == (UNION {Succ(h, n) : n \in frontier}) \ (seen \cup frontier)
       IN ReachFrom(h, nxt, seen \cup frontier)
Reach(h, n) == ReachFrom(h, {n}, {})
\* what C08 calls "the tree": the head held inside a dependency is a field of that metadata node
SuccTree(h, n) == IF h[n].t = "dep" THEN {} ELSE Succ(h, n)
RECURSIVE ReachTreeFrom(_, _, _)
ReachTreeFrom(h, frontier, seen) ==
  IF frontier = {} THEN seen
  ELSE LET nxt == (UNION {SuccTree(h, n) : n \in frontier}) \ (seen \cup frontier)
       IN ReachTreeFrom(h, nxt, seen \cup frontier)
ReachTree(h, n) == ReachTreeFrom(h, {n}, {})

\* objects of the four kinds that x and y have in common
Shared(h, x, y) == {n \in ReachTree(h, x) \cap ReachTree(h, y) : h[n].t \in Mutable}

-----------------------------------------------------------------------------
(* Structure: what is reachable from a reference, forgetting the identity of  *)
(* tags, lists, attribute maps and metadata nodes, keeping the identity of    *)
(* opaque leaves (tagifiable and self-rendering objects).                     *)
RECURSIVE Struct(_, _)
Struct(h, ref) ==
  IF ref.r # "id" THEN ref
  ELSE LET o == h[ref.n] IN
    CASE o.t = "tag"   -> [t |-> "tag", name |-> o.name, ws |-> o.ws, attrs |-> Struct(h, IdRef(o.a)), kids |-> Struct(h, IdRef(o.k))]
      [] o.t = "list"  -> [t |-> "list", items |-> [i \in 1..Len(o.items) |-> Struct(h, o.items[i])]]
      [] o.t = "attrs" -> [t |-> "attrs", items |-> [i \in 1..Len(o.items) |-> Struct(h, o.items[i])]]
      [] o.t = "meta"  -> [t |-> "meta"]
      [] o.t = "dep"   -> [t |-> "dep", name |-> o.name, head |-> IF o.k = 0 THEN [t |-> "none"] ELSE Struct(h, IdRef(o.k))]
      [] o.t = "tfy"   -> [t |-> "tfy", id |-> ref.n, mode |-> o.name, content |-> IF o.k = 0 THEN [t |-> "none"] ELSE Struct(h, IdRef(o.k))]
      [] o.t = "repr"  -> [t |-> "repr", id |-> ref.n]
      [] o.t = "doc"   -> [t |-> "doc", content |-> Struct(h, IdRef(o.k)), args |-> Struct(h, IdRef(o.a))]
      [] o.t = "jsx"   -> [t |-> "jsx", name |-> o.name, props |-> Struct(h, IdRef(o.a)), kids |-> Struct(h, IdRef(o.k))]
      [] OTHER         -> [t |-> o.t, id |-> ref.n]        \* an object the projection does not look into: opaque, by identity

\* the same structure with the identity of opaque leaves forgotten too (to compare separately built trees)
RECURSIVE Forget(_)
Forget(s) ==
  IF "t" \notin DOMAIN s THEN s
  ELSE CASE s.t = "tag"  -> [s EXCEPT !.attrs = Forget(s.attrs), !.kids = Forget(s.kids)]
         [] s.t \in {"list", "attrs"} -> [s EXCEPT !.items = [i \in 1..Len(s.items) |-> Forget(s.items[i])]]
         [] s.t = "repr" -> [t |-> "repr"]
         [] s.t = "tfy"  -> [t |-> "tfy", mode |-> s.mode, content |-> Forget(s.content)]
         [] s.t = "dep"  -> [s EXCEPT !.head = Forget(s.head)]
         [] OTHER -> s

HasTfy(h, n) == \E m \in Reach(h, n) : h[m].t \in {"tfy", "jsx"}

-----------------------------------------------------------------------------
(* Property level for C09: the expansion of a structure.  A tagifiable object *)
(* is replaced by what its tagify() returns: mode "list" -> the expanded      *)
(* content spliced into the sibling list; "tag" -> a tag <x> around it;       *)
(* "str" / "html" / "dep" -> that single item.                                *)
RECURSIVE Expand(_), ExpandItems(_)
ExpandItems(items) == FlattenSeq([i \in 1..Len(items) |->
    LET s == items[i] IN
    IF "t" \in DOMAIN s /\ s.t = "tfy" THEN
        CASE s.mode \in {"list", "listT"} -> ExpandItems(s.content.items)
          [] s.mode = "tag"  -> << [t |-> "tag", name |-> "x", ws |-> FALSE,
                                    attrs |-> [t |-> "attrs", items |-> <<>>],
                                    kids |-> [t |-> "list", items |-> ExpandItems(s.content.items)]] >>
          [] OTHER -> ExpandItems(s.content.items)      \* a one-element content list holding the str / HTML / dependency
    ELSE <<Expand(s)>>])
Expand(s) ==
  IF "t" \notin DOMAIN s THEN s
  ELSE CASE s.t = "tag"  -> [s EXCEPT !.kids = Expand(s.kids)]
         [] s.t = "list" -> [s EXCEPT !.items = ExpandItems(s.items)]
         [] OTHER -> s
=============================================================================
