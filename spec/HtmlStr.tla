------------------------------ MODULE HtmlStr ------------------------------
(* Enumerates every expression tree with at most MaxLeaves leaves over      *)
(* {S, H, O} (leaves numbered left to right) and checks C04Algebra.         *)
EXTENDS HtmlStrOps, TLC, Json, IOUtils
CONSTANT MaxLeaves
Kinds == {"S", "H", "O"}

\* all trees whose leaves are numbered from..from+n-1
RECURSIVE Trees(_, _)
Trees(n, from) ==
  IF n = 1 THEN {Leaf(k, from) : k \in Kinds}
  ELSE UNION {{Node(l, r) : l \in Trees(m, from), r \in Trees(n - m, from + m)} : m \in 1..(n - 1)}

VARIABLE e
Init == e \in UNION {Trees(n, 1) : n \in 1..MaxLeaves}
Next == UNCHANGED e
Spec == Init /\ [][Next]_e
InvAlgebra == C04Algebra(e)
\* the double-escape shape never arises: no piece escaped twice
InvOnce == \A j \in 1..Len(Eval(e).pieces) : Eval(e).pieces[j].n <= 1
Export == Eval(e).ok =>
   Serialize(ToJson([e |-> e, html |-> Eval(e).html, pieces |-> Eval(e).pieces]) \o "\n", IOEnv.EXPORT_FILE,
             [format |-> "TXT", charset |-> "UTF-8", openOptions |-> <<"WRITE", "CREATE", "APPEND">>]).exitValue = 0
=============================================================================
