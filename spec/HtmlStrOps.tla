----------------------------- MODULE HtmlStrOps -----------------------------
(***************************************************************************)
(* The HTML() + str algebra (HTML.__add__, HTML.__radd__, Python's binary  *)
(* operator dispatch) for C04.  An expression is a leaf [op, i] with op in *)
(* S (plain str), H (HTML()), O (some other object with a __str__ and no   *)
(* __add__), or a node [op |-> "add", l, r].  `+=` on a variable is the    *)
(* same dispatch followed by rebinding, so it is the same node.            *)
(* Eval gives [ok, html, pieces]; a piece is [i, k, n]: leaf index, leaf   *)
(* kind, and HOW MANY TIMES its text has been passed through html_escape   *)
(* on the way into the result.                                             *)
(***************************************************************************)
EXTENDS Naturals, Sequences

Leaf(op, i) == [op |-> op, i |-> i]
Node(l, r)  == [op |-> "add", l |-> l, r |-> r]

Bump(ps) == [j \in 1..Len(ps) |-> [ps[j] EXCEPT !.n = @ + 1]]
\* HTML() pieces are trusted: escaping never applies to them
BumpPlain(ps) == [j \in 1..Len(ps) |-> IF ps[j].k = "H" THEN ps[j] ELSE [ps[j] EXCEPT !.n = @ + 1]]

RECURSIVE Eval(_)
Eval(e) ==
  IF e.op # "add" THEN [ok |-> TRUE, html |-> e.op = "H", obj |-> e.op = "O",
                        pieces |-> << [i |-> e.i, k |-> e.op, n |-> 0] >>]
  ELSE LET a == Eval(e.l)  b == Eval(e.r) IN
    IF ~a.ok \/ ~b.ok THEN [ok |-> FALSE, html |-> FALSE, obj |-> FALSE, pieces |-> <<>>]
    ELSE IF a.html /\ b.html      \* HTML.__add__, HTML operand: no escaping
      THEN [ok |-> TRUE, html |-> TRUE, obj |-> FALSE, pieces |-> a.pieces \o b.pieces]
    ELSE IF a.html                \* HTML.__add__: html_escape(str(other))
      THEN [ok |-> TRUE, html |-> TRUE, obj |-> FALSE, pieces |-> a.pieces \o Bump(b.pieces)]
    ELSE IF b.html                \* str.__add__ / missing __add__ -> HTML.__radd__
      THEN [ok |-> TRUE, html |-> TRUE, obj |-> FALSE, pieces |-> Bump(a.pieces) \o b.pieces]
    ELSE IF a.obj \/ b.obj        \* str + object: TypeError, not a finite sequence of valid operations
      THEN [ok |-> FALSE, html |-> FALSE, obj |-> FALSE, pieces |-> <<>>]
    ELSE [ok |-> TRUE, html |-> FALSE, obj |-> FALSE, pieces |-> a.pieces \o b.pieces]

RECURSIVE Leaves(_)
Leaves(e) == IF e.op # "add" THEN <<e>> ELSE Leaves(e.l) \o Leaves(e.r)
HasH(e) == \E j \in 1..Len(Leaves(e)) : Leaves(e)[j].op = "H"

\* C04, second sentence, at design level: the result is HTML() iff some operand is,
\* its pieces are the operands in order, every plain operand escaped exactly once
\* (the remaining escape of an all-plain result happens when it is rendered as a child)
C04Algebra(e) ==
  LET r == Eval(e)  lv == Leaves(e) IN
  r.ok => /\ r.html = HasH(e)
          /\ Len(r.pieces) = Len(lv)
          /\ \A j \in 1..Len(lv) :
               /\ r.pieces[j].i = lv[j].i
               /\ r.pieces[j].n = IF lv[j].op = "H" \/ ~HasH(e) THEN 0 ELSE 1
=============================================================================
