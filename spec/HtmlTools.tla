----------------------------- MODULE HtmlTools -----------------------------
(***************************************************************************)
(* THE SYSTEM SPECIFICATION: the caller's object graph as a heap, and the  *)
(* public operations of htmltools as actions on it.                        *)
(*                                                                         *)
(*   heap   the objects (HeapOps)                                          *)
(*   roots  the caller's variables: a sequence of object ids               *)
(*   pairs  for every y = x.tagify(): [src, dst]                           *)
(*   want   for every root, the structure the caller is entitled to see:   *)
(*          updated only by mutations the caller makes THROUGH that root   *)
(*                                                                         *)
(* Allocating actions: Tagify, CopyTag.  Read-only actions (Render, Str,   *)
(* GetHtmlString, GetDependencies, DocRender, ...) are one action ReadOnly *)
(* with UNCHANGED heap: that is the specification of C08's first sentence; *)
(* the trace specification checks the implementation against it.           *)
(* Mutators: MutAppend, MutAttr, MutName (through a chosen root).          *)
(***************************************************************************)
EXTENDS HeapOps, TLC, Json, IOUtils

CONSTANTS InitTrees, MaxSteps

VARIABLES heap, roots, pairs, want, steps, last, hist, init, shallow
vars == <<heap, roots, pairs, want, steps, last, hist, init, shallow>>

-----------------------------------------------------------------------------
(* Building a heap from an abstract tree (only used to state initial states) *)
\* tree forms: [f |-> "T", name, ws, attrs (kv strings), kids] | [f |-> "S", v] | [f |-> "H", v]
\*             | [f |-> "M"] | [f |-> "D", name] | [f |-> "F", mode, kids] | [f |-> "R"]
RECURSIVE Alloc(_, _), AllocKids(_, _, _)
AllocKids(h, kids, i) ==
  IF i > Len(kids) THEN [h |-> h, out |-> <<>>]
  ELSE LET a == Alloc(h, kids[i])  b == AllocKids(a.h, kids, i + 1) IN [h |-> b.h, out |-> <<a.ref>> \o b.out]
Alloc(h, tr) ==
  CASE tr.f = "S" -> [h |-> h, ref |-> StrRef(tr.v)]
    [] tr.f = "H" -> [h |-> h, ref |-> [r |-> "html", v |-> tr.v, n |-> 0]]
    [] tr.f = "M" -> [h |-> Append(h, Obj("meta", "", FALSE, 0, 0, <<>>)), ref |-> IdRef(Len(h) + 1)]
    [] tr.f = "D" -> [h |-> Append(h, Obj("dep", tr.name, FALSE, 0, 0, <<>>)), ref |-> IdRef(Len(h) + 1)]
    [] tr.f = "R" -> [h |-> Append(h, Obj("repr", "", FALSE, 0, 0, <<>>)), ref |-> IdRef(Len(h) + 1)]
    [] tr.f = "T" ->
         LET n == Len(h) + 1
             h1 == h \o << Obj("tag", tr.name, tr.ws, n + 2, n + 1, <<>>), Obj("list", "", FALSE, 0, 0, <<>>),
                           Obj("attrs", "", FALSE, 0, 0, [i \in 1..Len(tr.attrs) |-> [r |-> "kv", v |-> tr.attrs[i], n |-> 0]]) >>
             k == AllocKids(h1, tr.kids, 1)
         IN [h |-> [k.h EXCEPT ![n + 1].items = k.out], ref |-> IdRef(n)]
    [] tr.f = "F" ->
         LET n == Len(h) + 1
             h1 == h \o << Obj("tfy", tr.mode, FALSE, 0, n + 1, <<>>), Obj("list", "", FALSE, 0, 0, <<>>) >>
             k == AllocKids(h1, tr.kids, 1)
         IN [h |-> [k.h EXCEPT ![n + 1].items = k.out], ref |-> IdRef(n)]

-----------------------------------------------------------------------------
(* Tag.tagify / TagList.tagify on the heap *)
RECURSIVE TgRef(_, _), TgItems(_, _, _), NewTag(_, _, _, _, _)
TgItems(h, items, i) ==
  IF i > Len(items) THEN [h |-> h, out |-> <<>>]
  ELSE LET a == TgRef(h, items[i])  b == TgItems(a.h, items, i + 1) IN [h |-> b.h, out |-> a.out \o b.out]
\* a fresh tag + fresh child list + fresh attribute map (Tag.__copy__, then children replaced)
NewTag(h, name, ws, attritems, kiditems) ==
  LET n  == Len(h) + 1
      h1 == h \o << Obj("tag", name, ws, n + 2, n + 1, <<>>), Obj("list", "", FALSE, 0, 0, <<>>),
                    Obj("attrs", "", FALSE, 0, 0, attritems) >>
      r  == TgItems(h1, kiditems, 1)
  IN [h |-> [r.h EXCEPT ![n + 1].items = r.out], out |-> <<IdRef(n)>>]
\* what one element of a child list becomes (a sequence: TagList results are spliced)
TgRef(h, ref) ==
  IF ref.r # "id" THEN [h |-> h, out |-> <<ref>>]                          \* str / HTML: immutable, shared
  ELSE LET o == h[ref.n] IN
    CASE o.t \in {"meta", "dep"} -> [h |-> Append(h, o), out |-> <<IdRef(Len(h) + 1)>>]   \* copy(child)
      [] o.t = "tag"  -> NewTag(h, o.name, o.ws, h[o.a].items, h[o.k].items)
      [] o.t = "repr" -> [h |-> h, out |-> <<ref>>]
      [] o.t = "tfy"  -> IF o.name = "tag" THEN NewTag(h, "x", FALSE, <<>>, h[o.k].items)
                         ELSE TgItems(h, h[o.k].items, 1)                    \* list: spliced; str/html/dep: the one item

-----------------------------------------------------------------------------
Init == /\ \E tr \in InitTrees : LET a == Alloc(<<>>, tr) IN heap = a.h /\ roots = <<a.ref.n>> /\ init = tr
        /\ hist = <<>> /\ shallow = {}
        /\ pairs = <<>> /\ steps = 0 /\ last = "init"
        /\ want = <<Struct(heap, IdRef(roots[1]))>>

Tagify(i) ==
  LET r == TgRef(heap, IdRef(roots[i])) IN
  /\ heap' = r.h
  /\ roots' = Append(roots, r.out[1].n)
  /\ pairs' = Append(pairs, [src |-> roots[i], dst |-> r.out[1].n])
  /\ want' = Append(want, Struct(r.h, r.out[1]))
  /\ last' = "Tagify" /\ hist' = Append(hist, [act |-> "Tagify", i |-> i, kind |-> "", ord |-> 0]) /\ UNCHANGED <<init, shallow>>

\* copy.copy(tag): new tag object, new child list and attribute map with the same elements
CopyTag(i) ==
  LET o == heap[roots[i]]  n == Len(heap) + 1 IN
  /\ o.t = "tag"
  /\ heap' = heap \o << Obj("tag", o.name, o.ws, n + 2, n + 1, <<>>),
                        Obj("list", "", FALSE, 0, 0, heap[o.k].items), Obj("attrs", "", FALSE, 0, 0, heap[o.a].items) >>
  /\ roots' = Append(roots, n)
  /\ want' = Append(want, Struct(heap', IdRef(n)))
  /\ last' = "CopyTag" /\ hist' = Append(hist, [act |-> "CopyTag", i |-> i, kind |-> "", ord |-> 0]) /\ UNCHANGED init
  \* a shallow copy and its source share their children by design: neither is promised anything from then on
  /\ shallow' = shallow \cup {i, Len(roots) + 1}
  /\ UNCHANGED pairs

\* render(), str(), repr(), _repr_html_(), get_html_string(), get_dependencies(), HTMLDocument(...).render(),
\* save_html(), HTMLDependency.as_html_tags/as_dict/source_path_map/serialize...: nothing changes
ReadOnly(i) == /\ last' = "ReadOnly" /\ hist' = Append(hist, [act |-> "ReadOnly", i |-> i, kind |-> "", ord |-> 0])
               /\ UNCHANGED <<heap, roots, pairs, want, init, shallow>>

\* mutations through root i: on an object of ITS tree, by the public API
MutTargets(i, kind) == {n \in ReachTree(heap, roots[i]) : heap[n].t = kind}
Rank(i, n) == Cardinality({m \in ReachTree(heap, roots[i]) : heap[m].t = heap[n].t /\ m <= n})
MutateAs(i, n, newobj, act) ==
  /\ hist' = Append(hist, [act |-> act, i |-> i, kind |-> heap[n].t, ord |-> Rank(i, n)]) /\ UNCHANGED <<init, shallow>>
  /\ heap' = [heap EXCEPT ![n] = newobj]
  /\ want' = [want EXCEPT ![i] = Struct(heap', IdRef(roots[i]))]
  /\ last' = "Mutate"
  /\ UNCHANGED <<roots, pairs>>
MutAppend(i) == \E n \in MutTargets(i, "list") : MutateAs(i, n, [heap[n] EXCEPT !.items = Append(@, StrRef("new"))], "MutAppend")
MutAttr(i)   == \E n \in MutTargets(i, "attrs") : MutateAs(i, n, [heap[n] EXCEPT !.items = Append(@, [r |-> "kv", v |-> "z=1", n |-> 0])], "MutAttr")
MutName(i)   == \E n \in MutTargets(i, "tag") : MutateAs(i, n, [heap[n] EXCEPT !.name = "renamed"], "MutName")
MutDrop(i)   == \E n \in MutTargets(i, "list") : heap[n].items # <<>> /\ MutateAs(i, n, [heap[n] EXCEPT !.items = Tail(@)], "MutDrop")

Next == /\ steps < MaxSteps /\ steps' = steps + 1
        /\ \E i \in 1..Len(roots) :
             \/ (heap[roots[i]].t = "tag" /\ Tagify(i)) \/ CopyTag(i) \/ ReadOnly(i)
             \/ MutAppend(i) \/ MutAttr(i) \/ MutName(i) \/ MutDrop(i)
Spec == Init /\ [][Next]_vars

-----------------------------------------------------------------------------
(* C08 / C09 at design level *)
\* a tagify() result shares no tag, child list, attribute map or metadata node with its source
InvIndependent == \A p \in 1..Len(pairs) : Shared(heap, pairs[p].src, pairs[p].dst) = {}
\* hence mutating either through the public API never affects the other: every root still shows
\* exactly what its owner did to it - but only roots related by tagify are promised this
TagifyRelated(i, j) == \E p \in 1..Len(pairs) : {pairs[p].src, pairs[p].dst} = {roots[i], roots[j]}
InvNonInterference ==
  \A i \in 1..Len(roots) :
     (i \notin shallow /\
      \A j \in 1..Len(roots) : j # i => TagifyRelated(i, j) \/ ReachTree(heap, roots[i]) \cap ReachTree(heap, roots[j]) = {})
        => Struct(heap, IdRef(roots[i])) = want[i]
\* the result is a fixed point of tagify and equals the expansion of the source at the time
InvFixedPoint == \A p \in 1..Len(pairs) :
   LET r == TgRef(heap, IdRef(pairs[p].dst)) IN Struct(r.h, r.out[1]) = Struct(heap, IdRef(pairs[p].dst))
InvNoTfyLeft == \A p \in 1..Len(pairs) : \A n \in ReachTree(heap, pairs[p].dst) : heap[n].t # "tfy"
\* C09: tagify = expansion (checked when the pair is created: action property)
TagifyIsExpansion ==
  [][Len(pairs') > Len(pairs) =>
        Struct(heap', IdRef(pairs'[Len(pairs')].dst)) = Expand(Struct(heap, IdRef(pairs'[Len(pairs')].src)))]_vars
\* C08: when nothing needed expansion the result equals the original
TagifyEqualWhenNothingToExpand ==
  [][(Len(pairs') > Len(pairs) /\ ~HasTfy(heap, pairs'[Len(pairs')].src)) =>
        Struct(heap', IdRef(pairs'[Len(pairs')].dst)) = Struct(heap, IdRef(pairs'[Len(pairs')].src))]_vars
\* read-only and allocating actions never change an existing object
OldObjectsUntouchedUnlessMutated ==
  [][last' # "Mutate" => SubSeq(heap', 1, Len(heap)) = heap]_vars
Export == steps = MaxSteps =>
   Serialize(ToJson([tree |-> init, hist |-> hist]) \o "\n", IOEnv.EXPORT_FILE,
             [format |-> "TXT", charset |-> "UTF-8", openOptions |-> <<"WRITE", "CREATE", "APPEND">>]).exitValue = 0
=============================================================================
