-------------------------------- MODULE Jsx --------------------------------
(* Enumerates component trees by growth (children of kinds component / tag /   *)
(* string / dependency / bare metadata / tagifiable) with the root's props     *)
(* drawn from PropSets, and checks the shape of the required expression.       *)
EXTENDS JsxOps, TLC, Json, IOUtils
CONSTANTS MaxNodes, MaxDepth, PropSets

VARIABLES tree, phase
vars == <<tree, phase>>
Nd(f, name, props, kids, v, mode) == [f |-> f, name |-> name, props |-> props, kids |-> kids, v |-> v, mode |-> mode]
nFoo == <<70, 111, 111>>  nBar == <<66, 97, 114>>  nDiv == <<100, 105, 118>>
Mk(k) == CASE k = "C" -> Nd("C", nBar, <<>>, <<>>, <<>>, "")
           [] k = "T" -> Nd("T", nDiv, <<>>, <<>>, <<>>, "")
           [] k = "S" -> Nd("S", <<>>, <<>>, <<>>, <<115>>, "")
           [] k = "E" -> Nd("S", <<>>, <<>>, <<>>, <<>>, "")            \* the empty string as a child
           [] k = "D" -> Nd("D", <<100>>, <<>>, <<>>, <<>>, "")
           [] k = "M" -> Nd("M", <<>>, <<>>, <<>>, <<>>, "")
           [] k = "Ft" -> Nd("F", <<>>, <<>>, <<>>, <<>>, "tag")
           [] k = "Fs" -> Nd("F", <<>>, <<>>, <<>>, <<119>>, "str")
           [] k = "Fd" -> Nd("F", <<101>>, <<>>, <<>>, <<>>, "dep")
Kinds == {"C", "T", "S", "E", "D", "M", "Ft", "Fs", "Fd"}
HasKids(x) == x.f \in {"C", "T"} \/ (x.f = "F" /\ x.mode = "tag")
RECURSIVE Size(_), SpineDepth(_), AppendAt(_, _, _)
Size(x) == 1 + FoldLeft(LAMBDA a, ch : a + Size(ch), 0, x.kids)
SpineDepth(x) == IF Len(x.kids) > 0 /\ HasKids(x.kids[Len(x.kids)]) THEN 1 + SpineDepth(x.kids[Len(x.kids)]) ELSE 0
AppendAt(x, j, new) == IF j = 0 THEN [x EXCEPT !.kids = Append(@, new)]
                       ELSE [x EXCEPT !.kids[Len(x.kids)] = AppendAt(x.kids[Len(x.kids)], j - 1, new)]
Init == tree \in {Nd("C", nFoo, ps, <<>>, <<>>, "") : ps \in PropSets} /\ phase = "build"
\* the node at depth j of the rightmost spine, and whether a tagifiable object lies on the way to it
RECURSIVE UnderF(_, _)
UnderF(x, j) == x.f = "F" \/ (j > 0 /\ UnderF(x.kids[Len(x.kids)], j - 1))
\* a component inside a tagifiable's expansion would be converted to a <script> tag by the expansion itself
\* (tagify() must return fully tagified content): such trees are outside the statement
Grow == /\ phase = "build" /\ Size(tree) < MaxNodes
        /\ \E j \in 0..SpineDepth(tree), k \in Kinds :
              /\ j + 2 <= MaxDepth
              /\ (k = "C" => ~UnderF(tree, j))
              /\ tree' = AppendAt(tree, j, Mk(k))
        /\ UNCHANGED phase
Finish == phase = "build" /\ phase' = "done" /\ UNCHANGED tree
Next == Grow \/ Finish
Spec == Init /\ [][Next]_vars

\* each child that writes something appears once, in order; metadata children write nothing
Visible(kids) == SelectSeq(kids, LAMBDA c : ~(c.f \in {"D", "M"} \/ (c.f = "F" /\ c.mode = "dep")))
InvKidsOnce == phase = "done" => Len(El(tree).kids) = Len(Visible(tree.kids))
InvPropsOnce == phase = "done" => Len(El(tree).props) = Len(tree.props)
\* every dependency placed anywhere the statement lists is surfaced
RECURSIVE CountD(_)
CountD(x) == (IF x.f = "D" \/ (x.f = "F" /\ x.mode = "dep") THEN 1 ELSE 0)
             + FoldLeft(LAMBDA a, c : a + CountD(c), 0, x.kids)
             + FoldLeft(LAMBDA a, pr : a + (IF pr.val.p = "node" THEN CountD(pr.val.items[1]) ELSE 0), 0, x.props)
InvMetaComplete == phase = "done" => Len(MetaOf(tree)) = CountD(tree)
Export == phase = "done" =>
   Serialize(ToJson([tree |-> tree]) \o "\n", IOEnv.EXPORT_FILE,
             [format |-> "TXT", charset |-> "UTF-8", openOptions |-> <<"WRITE", "CREATE", "APPEND">>]).exitValue = 0
=============================================================================
