------------------------------- MODULE JsxOps -------------------------------
(***************************************************************************)
(* C20: JSX components.  What React.createElement expression a component   *)
(* must be written as (El), and which metadata nodes its conversion must   *)
(* surface (MetaOf).                                                       *)
(*                                                                         *)
(* Node: [f, name, props, kids, v, mode]                                   *)
(*   f = "C"  component: name, props = <<[k, val]>>, kids                  *)
(*   f = "T"  HTML tag: name, props = its attributes (values: str), kids   *)
(*   f = "S"  string child: v                                              *)
(*   f = "D"  dependency: name (a label)      f = "M"  bare metadata node  *)
(*   f = "F"  tagifiable object: mode = "tag" (expands to a <span> around  *)
(*            kids) | "str" (expands to the string v) | "dep"              *)
(* Prop value: [p, v, items]                                               *)
(*   p = none | true | false | num | str | jsx | list | tuple | dict       *)
(*       | node (items = <<Node>>)    (dict items: <<[k, val]>>)           *)
(* All texts (names, keys, strings, raw JavaScript) are code points.       *)
(* Expected expression: El = [e, name, quoted, props, kids, t]             *)
(*   e = "el": name, quoted (HTML tag names are quoted), props =           *)
(*             <<[k, v: Js]>>, kids = <<El>>     e = "str": t              *)
(* Js = [j, t, items]: j = raw | str | arr | obj | el (items = <<El>>)     *)
(***************************************************************************)
EXTENDS Naturals, Sequences, FiniteSets, SequencesExt

USj == 95  HYj == 45  COLj == 58  SEMj == 59
\* JSXTagAttrDict._normalize_attr_name / TagAttrDict: drop one trailing '_', then '_' -> '-'
NormKey(x) ==
  LET y == IF Len(x) > 0 /\ x[Len(x)] = USj THEN SubSeq(x, 1, Len(x) - 1) ELSE x
  IN [i \in 1..Len(y) |-> IF y[i] = USj THEN HYj ELSE y[i]]

Js(j, t, items) == [j |-> j, t |-> t, items |-> items]
ElRec(name, quoted, props, kids) == [e |-> "el", name |-> name, quoted |-> quoted, props |-> props, kids |-> kids, t |-> <<>>]
StrEl(t) == [e |-> "str", name |-> <<>>, quoted |-> FALSE, props |-> <<>>, kids |-> <<>>, t |-> t]

sNull == <<110, 117, 108, 108>>  sTrue == <<116, 114, 117, 101>>  sFalse == <<102, 97, 108, 115, 101>>
sStyle == <<115, 116, 121, 108, 101>>  sSpan == <<115, 112, 97, 110>>

\* split a sequence at a separator character
RECURSIVE SplitAt(_, _, _, _)
SplitAt(s, sep, i, cur) ==
  IF i > Len(s) THEN <<cur>>
  ELSE IF s[i] = sep THEN <<cur>> \o SplitAt(s, sep, i + 1, <<>>)
  ELSE SplitAt(s, sep, i + 1, Append(cur, s[i]))
HasColon(s) == \E i \in 1..Len(s) : s[i] = COLj
\* "k:v;k2:v2" -> <<[k, v]>> (React wants style as an object); parts without ':' are dropped
StyleItems(s) ==
  LET parts == SelectSeq(SplitAt(s, SEMj, 1, <<>>), HasColon) IN
  [i \in 1..Len(parts) |-> LET kv == SplitAt(parts[i], COLj, 1, <<>>) IN
                           [k |-> kv[1], v |-> Js("str", kv[2], <<>>)]]

RECURSIVE El(_), JsOf(_), KidEls(_), ExpandF(_)
\* what a tagifiable object is replaced by
ExpandF(x) == CASE x.mode = "tag" -> [f |-> "T", name |-> sSpan, props |-> <<>>, kids |-> x.kids, v |-> <<>>, mode |-> ""]
                [] x.mode = "str" -> [f |-> "S", name |-> <<>>, props |-> <<>>, kids |-> <<>>, v |-> x.v, mode |-> ""]
                [] OTHER -> [f |-> "D", name |-> x.name, props |-> <<>>, kids |-> <<>>, v |-> <<>>, mode |-> ""]
\* children: metadata nodes write nothing; every other child once, in order
KidEls(kids) == FlattenSeq([i \in 1..Len(kids) |->
   LET c == IF kids[i].f = "F" THEN ExpandF(kids[i]) ELSE kids[i] IN
   IF c.f \in {"D", "M"} THEN <<>> ELSE <<El(c)>>])
JsOf(val) ==
  CASE val.p = "none"  -> Js("raw", sNull, <<>>)
    [] val.p = "true"  -> Js("raw", sTrue, <<>>)
    [] val.p = "false" -> Js("raw", sFalse, <<>>)
    [] val.p \in {"num", "jsx"} -> Js("raw", val.v, <<>>)
    [] val.p = "str"   -> Js("str", val.v, <<>>)
    [] val.p \in {"list", "tuple"} -> Js("arr", <<>>, [i \in 1..Len(val.items) |-> JsOf(val.items[i])])
    [] val.p = "dict"  -> Js("obj", <<>>, [i \in 1..Len(val.items) |-> [k |-> val.items[i].k, v |-> JsOf(val.items[i].val)]])
    \* a tag or component (or a tagifiable object that expands to one) is written as a nested element;
    \* a tagifiable object that expands to a string as that string
    [] val.p = "node"  -> LET n == IF val.items[1].f = "F" THEN ExpandF(val.items[1]) ELSE val.items[1] IN
                          IF n.f = "S" THEN Js("str", n.v, <<>>) ELSE Js("el", <<>>, <<El(n)>>)
PropJs(k, val) ==
  IF NormKey(k) = sStyle THEN
     CASE val.p = "none" -> Js("obj", <<>>, <<>>)
       [] val.p = "str"  -> Js("obj", <<>>, StyleItems(val.v))
       [] OTHER          -> JsOf(val)
  ELSE JsOf(val)
El(x) ==
  IF x.f = "S" THEN StrEl(x.v)
  ELSE ElRec(x.name, x.f = "T",
             [i \in 1..Len(x.props) |-> [k |-> NormKey(x.props[i].k), v |-> PropJs(x.props[i].k, x.props[i].val)]],
             KidEls(x.kids))

\* metadata the conversion must surface: among children, nested tags and components, props whose
\* value is a tag or component, and the expansions of tagifiable descendants
RECURSIVE MetaOf(_)
MetaOf(x) ==
  LET y == IF x.f = "F" THEN ExpandF(x) ELSE x IN
  CASE y.f = "D" -> <<y.name>>
    [] y.f \in {"S", "M"} -> <<>>
    [] OTHER -> (IF y.f = "C" THEN FlattenSeq([i \in 1..Len(y.props) |->
                                   IF y.props[i].val.p = "node" THEN MetaOf(y.props[i].val.items[1]) ELSE <<>>]) ELSE <<>>)
                \o FlattenSeq([i \in 1..Len(y.kids) |-> MetaOf(y.kids[i])])
RECURSIVE BareMeta(_)
BareMeta(x) ==
  LET y == IF x.f = "F" THEN ExpandF(x) ELSE x IN
  CASE y.f = "M" -> 1
    [] y.f \in {"S", "D"} -> 0
    [] OTHER -> FoldLeft(LAMBDA a, c : a + BareMeta(c), 0, y.kids)
                + (IF y.f = "C" THEN FoldLeft(LAMBDA a, pr : a + (IF pr.val.p = "node" THEN BareMeta(pr.val.items[1]) ELSE 0), 0, y.props) ELSE 0)
=============================================================================
