------------------------------ MODULE MC_Attr ------------------------------
EXTENDS Attr
\* raw names that collide after normalisation: x, x_ -> x ; x__, x- -> x- ; a_b, a-b, a_b_ -> a-b
nX == <<120>>  nX_ == <<120, 95>>  nX__ == <<120, 95, 95>>  nXh == <<120, 45>>
nAuB == <<97, 95, 98>>  nAhB == <<97, 45, 98>>  nAuBu == <<97, 95, 98, 95>>  nXuh == <<120, 95, 45>>
MCNames == {nX, nX_, nX__, nAuB, nAhB}
MCNamesFull == {nX, nX_, nX__, nXh, nAuB, nAhB, nAuBu, nXuh, <<99, 108, 97, 115, 115>>, <<115, 116, 121, 108, 101>>}
\* values: dropped, True, a hostile plain string, a hostile HTML() string, a number, an unsupported object
hostile1 == <<97, 34, 60, 10>>       \* a"<LF
hostile2 == <<38, 39, 13, 59>>       \* &'CR;
MCVals == {V("none", <<>>), V("true", <<>>), V("str", hostile1), V("html", hostile2), V("num", <<53>>)}
\* (a trusted HTML() value is emitted verbatim: one that contains a double quote ends the attribute by itself, which is
\*  its author's business and outside C03 - the HTML() values of the model hold every other special character)
hostile3 == <<97, 39, 60, 10>>       \* a'<LF
MCValsFull == MCVals \cup {V("false", <<>>), V("bad", <<>>), V("str", <<>>), V("html", hostile3), V("str", hostile2)}
=============================================================================
