---------------------------- MODULE MC_ClassStyle ----------------------------
EXTENDS ClassStyle
\* a, b, '-', space, tab
MCAlphabet == {97, 98, 45, 32, 9}
\* tokens that are substrings of one another: a, ab, a-b, b
MCToks == {<<97>>, <<97, 98>>, <<97, 45, 98>>, <<98>>}
\* "x;"  "y:1;"  "z" (no semicolon)  "" (empty)
MCDecls == {<<120, 59>>, <<121, 58, 49, 59>>, <<122>>, <<>>}
\* a  a_b  aB  AB  a_B  aBC
MCCssKeys == {<<97>>, <<97, 95, 98>>, <<97, 66>>, <<65, 66>>, <<97, 95, 66>>, <<97, 66, 67>>}
MCCssVals == {<<118>>, <<49>>}
=============================================================================
