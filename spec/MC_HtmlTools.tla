---------------------------- MODULE MC_HtmlTools ----------------------------
EXTENDS HtmlTools
T(name, ws, attrs, kids) == [f |-> "T", name |-> name, ws |-> ws, attrs |-> attrs, kids |-> kids]
S(v) == [f |-> "S", v |-> v]
Hh(v) == [f |-> "H", v |-> v]
M == [f |-> "M"]
D(name) == [f |-> "D", name |-> name]
R == [f |-> "R"]
F(mode, kids) == [f |-> "F", mode |-> mode, kids |-> kids]
\* plain tree with nested tags, text, metadata and a dependency
Tree1 == T("div", TRUE, <<"a=1">>, << S("s"), T("span", FALSE, <<>>, <<S("t"), M>>), D("d@1.0") >>)
\* tagifiables: list-valued (with a nested tagifiable), tag-valued, string-valued; a self-rendering object
Tree2 == T("div", TRUE, <<>>, << F("list", << S("u"), T("b", FALSE, <<"c=2">>, <<>>), F("str", <<S("w")>>) >>),
                                  R, F("tag", << M >>) >>)
\* empty expansion next to a non-empty one, expansion at index 0 and last, dependency-valued
Tree3 == T("p", TRUE, <<>>, << F("list", <<>>), F("list", <<S("a"), S("b")>>), T("i", FALSE, <<>>, <<F("dep", <<D("e@2")>>)>>), F("list", <<>>) >>)
MCTrees == {Tree1, Tree2, Tree3}
=============================================================================
