---------------------------- MODULE MC_Normalize ----------------------------
EXTENDS Normalize
S(v) == Leaf("str", v)
L(c) == Cont("list", c)
T(c) == Cont("tuple", c)
TL(c) == Cont("tl", c)
none == Leaf("none", "")
bad == Leaf("bad", "o")
MCArgs == { S("ab"), S(""), Leaf("num", "1"), Leaf("num", "2.5"), Leaf("num", "True"), none,
            Leaf("tag", "t1"), Leaf("html", "<b>"), Leaf("dep", "d1"), Leaf("repr", "r1"), Leaf("tfy", "f1"), bad,
            L(<<S("a"), none, L(<<Leaf("num", "3"), T(<<S("b")>>)>>)>>),
            T(<<TL(<<S("c"), Leaf("tag", "t2")>>), none>>),
            TL(<<>>),
            L(<<S("a"), L(<<T(<<bad>>)>>)>>) }
MCArgsSmall == { S("ab"), Leaf("num", "1"), none, Leaf("tag", "t1"), bad,
                 L(<<S("a"), none, L(<<Leaf("num", "3"), T(<<S("b")>>)>>)>>),
                 T(<<TL(<<S("c"), Leaf("tag", "t2")>>), none>>),
                 L(<<S("a"), L(<<T(<<bad>>)>>)>>) }
MCIters == { S("bc"), L(<<>>), L(<<S("a"), none, L(<<Leaf("num", "3")>>)>>), T(<<Leaf("tag", "t3"), S("x")>>),
             TL(<<S("y"), Leaf("html", "<i>")>>), Cont("iter", <<Leaf("num", "0"), Leaf("num", "1")>>),
             L(<<S("a"), T(<<bad>>)>>), L(<<Leaf("num", "7"), bad>>) }
MCIndices == {-2, -1, 0, 1, 3}
MCItersSmall == { S("bc"), L(<<S("a"), none, L(<<Leaf("num", "3")>>)>>), TL(<<S("y"), Leaf("html", "<i>")>>),
                  L(<<Leaf("num", "7"), bad>>) }
=============================================================================
