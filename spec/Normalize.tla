----------------------------- MODULE Normalize -----------------------------
(* Histories of child operations on one TagList (or on a Tag's children):   *)
(* every sequence of at most MaxOps operations with arguments from ArgPool. *)
EXTENDS NormalizeOps, TLC, Json, IOUtils
CONSTANTS ArgPool, IterPool, MaxOps, Indices, Reps

VARIABLES items, hist, exc
vars == <<items, hist, exc>>

Op(act, args, i, j, n) == [act |-> act, args |-> args, i |-> i, j |-> j, n |-> n]

Init == items = <<>> /\ hist = <<>> /\ exc = "none"
Do(op) == LET r == Apply(items, op) IN
          /\ items' = r.items /\ exc' = r.exc
          /\ hist' = Append(hist, [op |-> op, post |-> r.items, exc |-> r.exc])
Next == /\ Len(hist) < MaxOps
        /\ \/ \E a \in ArgPool : Do(Op(IF hist = <<>> THEN "New" ELSE "Append", <<a>>, 0, 0, 0))
           \/ \E a, b \in ArgPool : Len(hist) = 0 /\ Do(Op("New", <<a, b>>, 0, 0, 0))
           \/ \E a \in IterPool, act \in {"Extend", "IAdd", "Add", "RAdd"} : Do(Op(act, <<a>>, 0, 0, 0))
           \/ \E a \in ArgPool, i \in Indices : Do(Op("Insert", <<a>>, i, 0, 0))
           \/ \E i \in Indices, j \in Indices, st \in {1, 2} : items # <<>> /\ Do(Op("Slice", <<>>, i, j, st))
           \/ \E n \in Reps, act \in {"Repeat", "IMul"} : items # <<>> /\ Len(items) <= 3 /\ Do(Op(act, <<>>, 0, 0, n))
Spec == Init /\ [][Next]_vars

\* C14 at design level
InvAllNodes == AllNodes(items)
InvSpecEq == hist # <<>> =>
   LET h == hist[Len(hist)]
       before == IF Len(hist) = 1 THEN <<>> ELSE hist[Len(hist) - 1].post
       s == ApplySpec(before, h.op)
   IN s.items = h.post /\ s.exc = h.exc
InvAtomic == exc = "TypeError" => items = (IF Len(hist) = 1 THEN <<>> ELSE hist[Len(hist) - 1].post)

Export == (Len(hist) = MaxOps \/ exc # "none") =>
   Serialize(ToJson([hist |-> hist]) \o "\n", IOEnv.EXPORT_FILE,
             [format |-> "TXT", charset |-> "UTF-8", openOptions |-> <<"WRITE", "CREATE", "APPEND">>]).exitValue = 0
=============================================================================
