---------------------------- MODULE NormalizeOps ----------------------------
(***************************************************************************)
(* Child normalisation (C14): htmltools._util.flatten, _core._tagchilds_   *)
(* to_tagnodes, and the TagList / Tag child operations built on them.      *)
(*                                                                         *)
(* A value is [k, v, c]:                                                   *)
(*   leaves   k in str | html | num | tag | dep | repr | tfy | none | bad  *)
(*            v = the text (str, html, num: its str() text) or a label     *)
(*            that identifies the object; c = <<>>                         *)
(*   containers k in list | tuple | tl (TagList) | iter (a one-shot        *)
(*            iterable, spliced only as the argument of extend / + / +=)   *)
(*            c = elements                                                 *)
(* A stored node is [k, v] with k in str | html | tag | dep | repr | tfy.  *)
(***************************************************************************)
EXTENDS Naturals, Integers, Sequences, FiniteSets, SequencesExt

Leaf(k, v) == [k |-> k, v |-> v, c |-> <<>>]
Cont(k, c) == [k |-> k, v |-> "", c |-> c]
Node(k, v) == [k |-> k, v |-> v]

Spliced == {"list", "tuple", "tl"}            \* isinstance(item, (list, tuple, TagList))
NodeKinds == {"str", "html", "tag", "dep", "repr", "tfy"}

-----------------------------------------------------------------------------
(* Property level: depth-first, left-to-right; containers spliced, None dropped, strings whole *)
RECURSIVE FlatSpec(_)
FlatSpec(a) == IF a.k \in Spliced THEN FlattenSeq([i \in 1..Len(a.c) |-> FlatSpec(a.c[i])])
               ELSE IF a.k = "none" THEN <<>> ELSE <<a>>
FlatArgs(args) == FlattenSeq([i \in 1..Len(args) |-> FlatSpec(args[i])])
Supported(x) == x.k \in NodeKinds \cup {"num"}
NormLeaf(x) == IF x.k = "num" THEN Node("str", x.v) ELSE Node(x.k, x.v)
NormSpec(args) == LET f == FlatArgs(args) IN [i \in 1..Len(f) |-> NormLeaf(f[i])]
AllSupported(args) == LET f == FlatArgs(args) IN \A i \in 1..Len(f) : Supported(f[i])

-----------------------------------------------------------------------------
(* Code-shaped: flatten() with its accumulator recursion, then the conversion loop *)
RECURSIVE FlatRec(_, _, _)
\* _flatten_recurse(x, result): x = sequence being iterated, from element i on
FlatRec(x, i, result) ==
  IF i > Len(x) THEN result
  ELSE IF x[i].k \in Spliced THEN FlatRec(x, i + 1, FlatRec(x[i].c, 1, result))
  ELSE IF x[i].k # "none" THEN FlatRec(x, i + 1, Append(result, x[i]))
  ELSE FlatRec(x, i + 1, result)
\* _tagchilds_to_tagnodes(x) for an iterable with elements xs: [exc, nodes]
ToNodes(xs) ==
  LET r == FlatRec(xs, 1, <<>>) IN
  IF \E i \in 1..Len(r) : ~Supported(r[i]) THEN [exc |-> "TypeError", nodes |-> <<>>]
  ELSE [exc |-> "none", nodes |-> [i \in 1..Len(r) |-> NormLeaf(r[i])]]

-----------------------------------------------------------------------------
(* The operations.  Each returns [exc, items] (items unchanged on TypeError). *)
\* the elements an iterable argument contributes: a str is taken whole
Elems(arg) == IF arg.k \in {"str", "html"} THEN <<arg>> ELSE arg.c
IsIterable(arg) == arg.k \in Spliced \cup {"iter", "str", "html"}

PyIdx(i, n) == IF i < 0 THEN (IF n + i < 0 THEN 0 ELSE n + i) ELSE (IF i > n THEN n ELSE i)
InsAt(s, i, t) == SubSeq(s, 1, i) \o t \o SubSeq(s, i + 1, Len(s))
RECURSIVE Rep(_, _)
Rep(s, n) == IF n <= 0 THEN <<>> ELSE s \o Rep(s, n - 1)
\* x[i:j:step] for step > 0 and integer bounds
PySlice(s, i, j, step) ==
  LET lo == PyIdx(i, Len(s))  hi == PyIdx(j, Len(s))
      idx == {k \in (lo + 1)..hi : (k - lo - 1) % step = 0}
  IN [m \in 1..Cardinality(idx) |-> s[lo + 1 + (m - 1) * step]]

Result(items, nodesR, Place(_)) ==
  IF nodesR.exc # "none" THEN [exc |-> nodesR.exc, items |-> items] ELSE [exc |-> "none", items |-> Place(nodesR.nodes)]

Apply(items, op) ==
  CASE op.act = "New"    -> Result(items, ToNodes(op.args), LAMBDA ns : ns)
    [] op.act = "Append" -> Result(items, ToNodes(op.args), LAMBDA ns : items \o ns)
    [] op.act \in {"Extend", "IAdd", "Add"} -> Result(items, ToNodes(Elems(op.args[1])), LAMBDA ns : items \o ns)
    [] op.act = "RAdd"   -> Result(items, ToNodes(Elems(op.args[1])), LAMBDA ns : ns \o items)
    [] op.act = "Insert" -> Result(items, ToNodes(op.args), LAMBDA ns : InsAt(items, PyIdx(op.i, Len(items)), ns))
    [] op.act = "Slice"  -> [exc |-> "none", items |-> PySlice(items, op.i, op.j, op.n)]
    [] op.act \in {"Repeat", "IMul"} -> [exc |-> "none", items |-> Rep(items, op.n)]

\* the property-level expectation for the same operation
Supplied(op) == IF op.act \in {"Extend", "IAdd", "Add", "RAdd"} THEN Elems(op.args[1]) ELSE op.args
ApplySpec(items, op) ==
  IF op.act \in {"Slice", "Repeat", "IMul"} THEN Apply(items, op)
  ELSE IF ~AllSupported(Supplied(op)) THEN [exc |-> "TypeError", items |-> items]
  ELSE LET ns == NormSpec(Supplied(op)) IN
       [exc |-> "none", items |->
          CASE op.act = "New" -> ns
            [] op.act \in {"Append", "Extend", "IAdd", "Add"} -> items \o ns
            [] op.act = "RAdd" -> ns \o items
            [] op.act = "Insert" -> InsAt(items, PyIdx(op.i, Len(items)), ns)]

AllNodes(items) == \A i \in 1..Len(items) : items[i].k \in NodeKinds

-----------------------------------------------------------------------------
(* Beyond C14: the mutators TagList inherits from collections.UserList unchanged.  None of them is in C14's list of *)
(* operations; they are specified as the code behaves (bin/extra list binds them to the real class).                 *)
(*   Pop(i) / DelItem(i) / Remove(v) / Clear / Reverse keep every stored element a node; Copy normalises again;      *)
(*   SetItem(i, a) - `x[i] = a` - stores the argument AS IS: no flattening, no None-dropping, no conversion of       *)
(*   numbers, no rejection.  A deliberate deviation of the model from what one would specify (named here, as the     *)
(*   guidance asks): after it AllNodes can be false and rendering raises.                                            *)
RawLabel(a) == CASE a.k = "num" -> a.v [] a.k = "none" -> "None" [] a.k \in Spliced -> a.k [] OTHER -> "bad"
StoredAsIs(a) == IF a.k \in NodeKinds THEN Node(a.k, a.v) ELSE Node("raw", RawLabel(a))
\* Python index of an existing element (0-based i, negative from the end) as a 1-based position, 0 if out of range
Pos(i, n) == IF i >= 0 THEN (IF i < n THEN i + 1 ELSE 0) ELSE (IF n + i >= 0 THEN n + i + 1 ELSE 0)
Without(s, p) == SubSeq(s, 1, p - 1) \o SubSeq(s, p + 1, Len(s))
\* `stored == value` as list.remove evaluates it: str and HTML() compare by text (UserString), tags structurally,
\* dependencies by value, numbers and None only with an element stored as is; objects without __eq__ (the tagifiable
\* and unsupported test objects) are equal only to themselves, and a fresh argument never is
EqStored(nd, a) ==
  CASE a.k \in {"str", "html"} -> nd.k \in {"str", "html"} /\ nd.v = a.v
    [] a.k \in {"tag", "dep"}  -> nd = Node(a.k, a.v)
    [] a.k \in {"num", "none"} -> nd = Node("raw", RawLabel(a))
    [] OTHER -> FALSE
FirstEq(s, a) == IF \E p \in 1..Len(s) : EqStored(s[p], a)
                 THEN CHOOSE p \in 1..Len(s) : EqStored(s[p], a) /\ \A q \in 1..(p - 1) : ~EqStored(s[q], a) ELSE 0
\* the labels of elements stored as is do not carry the contents of containers: where the outcome depends on them the
\* specification leaves the step open (Loose) instead of guessing
RawContainer(nd) == nd.k = "raw" /\ nd.v \in Spliced
Loose(items, op) == \/ (op.act = "Copy" /\ \E p \in 1..Len(items) : RawContainer(items[p]))
                    \/ (op.act = "Remove" /\ (op.args[1].k \in Spliced \/ \E p \in 1..Len(items) : RawContainer(items[p])))
\* x.copy() is UserList.copy -> TagList(self): the constructor normalises again, so numbers stored as is become text,
\* None disappears and an unsupported object makes the copy fail
Renormalised(items) ==
  LET keep == SelectSeq(items, LAMBDA nd : ~(nd.k = "raw" /\ nd.v = "None")) IN
  [p \in 1..Len(keep) |-> IF keep[p].k = "raw" THEN Node("str", keep[p].v) ELSE keep[p]]
ApplyInherited(items, op) ==
  CASE op.act \in {"Pop", "DelItem"} ->
          LET p == Pos(op.i, Len(items)) IN
          IF p = 0 THEN [exc |-> "IndexError", items |-> items] ELSE [exc |-> "none", items |-> Without(items, p)]
    [] op.act = "Remove" ->
          LET p == FirstEq(items, op.args[1]) IN
          IF p = 0 THEN [exc |-> "ValueError", items |-> items] ELSE [exc |-> "none", items |-> Without(items, p)]
    [] op.act = "Clear"   -> [exc |-> "none", items |-> <<>>]
    [] op.act = "Reverse" -> [exc |-> "none", items |-> Reverse(items)]
    [] op.act = "Copy"    -> IF \E p \in 1..Len(items) : items[p] = Node("raw", "bad")
                             THEN [exc |-> "TypeError", items |-> items]
                             ELSE [exc |-> "none", items |-> Renormalised(items)]
    [] op.act = "SetItem" ->
          LET p == Pos(op.i, Len(items)) IN
          IF p = 0 THEN [exc |-> "IndexError", items |-> items]
          ELSE [exc |-> "none", items |-> [items EXCEPT ![p] = StoredAsIs(op.args[1])]]
InheritedActs == {"Pop", "DelItem", "Remove", "Clear", "Reverse", "Copy", "SetItem"}
ApplyAny(items, op) == IF op.act \in InheritedActs THEN ApplyInherited(items, op) ELSE Apply(items, op)
=============================================================================
