------------------------------ MODULE ObjHist ------------------------------
(***************************************************************************)
(* Design level of the object-history machine: every history of at most    *)
(* MaxSteps operations (ObjOps!Apply) from a small object graph.  TLC      *)
(* checks the FRAME property - an operation changes what the program sees  *)
(* under a root only if the object it is applied to is reachable from that *)
(* root - and the independence facts about copies.  The same Apply is what *)
(* ObjTrace replays recorded histories of the real library against.        *)
(***************************************************************************)
EXTENDS ObjOps, TLC
CONSTANT MaxSteps
VARIABLES heap, roots, n, last
vars == <<heap, roots, n, last>>

\* <div x><span></span></div> : 1 attrs, 2 list, 3 attrs, 4 list, 5 span, 6 div
Heap0 == << Obj("attrs", "", FALSE, 0, 0, <<KV("id=x")>>), Obj("list", "", FALSE, 0, 0, <<StrRef("t"), IdRef(5)>>),
            Obj("attrs", "", FALSE, 0, 0, <<>>), Obj("list", "", FALSE, 0, 0, <<>>),
            Obj("tag", "span", FALSE, 3, 4, <<>>), Obj("tag", "div", TRUE, 1, 2, <<>>) >>
Init == heap = Heap0 /\ roots = <<6>> /\ n = 0 /\ last = [act |-> "none", obj |-> 0]

Live == UNION {Reach(heap, roots[i]) : i \in 1..Len(roots)}
OfKind(t) == {m \in Live : heap[m].t = t}
Act(act, obj, i, s, ref) == [act |-> act, obj |-> obj, i |-> i, s |-> s, ref |-> ref]
Actions ==
  {Act("append", l, 0, "", r) : l \in OfKind("list"), r \in {StrRef("new"), NewTagRef("b")}}
  \cup UNION {{Act("share", l, 0, "", IdRef(t)) : t \in {u \in OfKind("tag") : l \notin Reach(heap, u)}} : l \in OfKind("list")}
  \cup {Act("insert", o, 1 + Len(heap[ListOf(heap, o)].items), "", StrRef("ins")) : o \in OfKind("list") \cup OfKind("tag")}
  \cup {Act("setitem", l, 1, "", NewTagRef("i")) : l \in {m \in OfKind("list") : heap[m].items # <<>>}}
  \cup {Act("extend2", t, 0, "two", StrRef("one")) : t \in OfKind("tag")}
  \cup {Act("update", a, IF heap[a].items = <<>> THEN 0 ELSE 1, IF heap[a].items = <<>> THEN "id=y" ELSE "id=x y", StrRef("")) : a \in OfKind("attrs")}
  \cup {Act("pop", l, 1, "", StrRef("")) : l \in {m \in OfKind("list") : heap[m].items # <<>>}}
  \cup {Act("rename", t, 0, "pre", StrRef("")) : t \in OfKind("tag")}
  \cup {Act("toggle", t, 0, "", StrRef("")) : t \in OfKind("tag")}
  \cup {Act("setattr", a, 0, "k=v", StrRef("")) : a \in OfKind("attrs")}
  \cup {Act("relist", t, 0, "", StrRef("")) : t \in OfKind("tag")}
  \cup {Act(c, roots[i], 0, "", StrRef("")) : c \in {"copy", "deepcopy", "tagify"}, i \in 1..Len(roots)}
Step == /\ n < MaxSteps /\ Len(roots) < 3
        /\ \E a \in Actions : LET r == Apply(heap, roots, a) IN
             heap' = r.h /\ roots' = r.roots /\ last' = [act |-> a.act, obj |-> a.obj] /\ n' = n + 1
Spec == Init /\ [][Step]_vars

\* an operation on object o changes the view under root r only if o was reachable from r
Frame == [][\A i \in 1..Len(roots) :
              last'.obj \notin Reach(heap, roots[i]) => View(heap', <<roots'[i]>>) = View(heap, <<roots[i]>>)]_vars
\* no operation of this machine makes the graph cyclic (share is guarded)
NoCycle == \A m \in Live : m \notin UNION {Reach(heap, k) : k \in Succ(heap, m)}
\* deepcopy / tagify results share nothing with anything that existed; a shallow copy has its own map and list
CopyFacts == [][(last'.act \in {"deepcopy", "tagify"} =>
                    \A i \in 1..Len(roots) : Shared(heap', roots[i], roots'[Len(roots')]) = {})
                /\ (last'.act = "copy" =>
                    LET c == roots'[Len(roots')] IN heap'[c].a \notin Live /\ heap'[c].k \notin Live)]_vars
\* the new root of a copy looks exactly like its source
CopyLooksTheSame == [][last'.act \in {"copy", "deepcopy", "tagify"} =>
                         View(heap', <<roots'[Len(roots')]>>) = View(heap, <<last'.obj>>)]_vars
=============================================================================
