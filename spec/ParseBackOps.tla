---------------------------- MODULE ParseBackOps ----------------------------
(***************************************************************************)
(* C01: the element-tree reading of rendered markup.                       *)
(* A tree node is [k, name, attrs, c, t]:                                  *)
(*   k = "tag":  name (string), attrs = <<[n, v]>> (name string, value as  *)
(*               code points), c = children;                               *)
(*   k = "text": t = code points (a str leaf, or the str() text of a       *)
(*               number).                                                  *)
(* An HTML token event is [e, name, attrs, t] with e in start | self | end *)
(* | text | other (comment, doctype, bogus).  ElementView gives the events *)
(* the statement requires; Agree compares them with what an HTML tokenizer *)
(* produced from the real output: same tags in document order with the     *)
(* same nesting, names as written, attributes in order with equal decoded  *)
(* values, self-closed exactly for childless void names, and between any   *)
(* two tags the same text up to whitespace at the ends of the run.         *)
(***************************************************************************)
EXTENDS Naturals, Sequences, FiniteSets, SequencesExt, FiniteSetsExt

VoidNames == {"area", "base", "br", "col", "command", "embed", "hr", "img", "input", "keygen",
              "link", "meta", "param", "source", "track", "wbr"}
WS == {9, 10, 12, 13, 32}

Ev(e, name, attrs, t) == [e |-> e, name |-> name, attrs |-> attrs, t |-> t]

RECURSIVE ElementView(_)
ElementView(x) ==
  IF x.k = "text" THEN <<Ev("text", "", <<>>, x.t)>>
  ELSE IF x.k = "list" THEN FlattenSeq([i \in 1..Len(x.c) |-> ElementView(x.c[i])])
  ELSE IF x.name \in VoidNames /\ x.c = <<>> THEN <<Ev("self", x.name, x.attrs, <<>>)>>
  ELSE <<Ev("start", x.name, x.attrs, <<>>)>>
       \o FlattenSeq([i \in 1..Len(x.c) |-> ElementView(x.c[i])])
       \o <<Ev("end", x.name, <<>>, <<>>)>>

\* tag events, each with the text that precedes it; plus the trailing text
RECURSIVE Canon(_, _, _, _)
Canon(evs, i, cur, acc) ==
  IF i > Len(evs) THEN [pairs |-> acc, tail |-> cur]
  ELSE IF evs[i].e = "text" THEN Canon(evs, i + 1, cur \o evs[i].t, acc)
  ELSE Canon(evs, i + 1, <<>>, Append(acc, [before |-> cur, ev |-> evs[i]]))

StripWs(s) == LET idx == {i \in 1..Len(s) : s[i] \notin WS} IN
              IF idx = {} THEN <<>> ELSE SubSeq(s, Min(idx), Max(idx))

AttrsEq(a, b) == Len(a) = Len(b) /\ \A i \in 1..Len(a) : a[i].n = b[i].n /\ a[i].v = b[i].v
TagEq(x, y) == x.e = y.e /\ x.name = y.name /\ (x.e \in {"start", "self"} => AttrsEq(x.attrs, y.attrs))

\* first index at which the two canonical forms disagree (0: they agree)
Agree(exp, real) ==
  LET a == Canon(exp, 1, <<>>, <<>>)  b == Canon(real, 1, <<>>, <<>>)
      n == IF Len(a.pairs) < Len(b.pairs) THEN Len(a.pairs) ELSE Len(b.pairs)
      bad == {i \in 1..n : ~TagEq(a.pairs[i].ev, b.pairs[i].ev)
                           \/ StripWs(a.pairs[i].before) # StripWs(b.pairs[i].before)}
  IN IF bad # {} THEN Min(bad)
     ELSE IF Len(a.pairs) # Len(b.pairs) THEN n + 1
     ELSE IF StripWs(a.tail) # StripWs(b.tail) THEN n + 1
     ELSE 0

\* well-nestedness of a token stream on its own (a consequence, checked separately for the evidence)
RECURSIVE Nested(_, _, _)
Nested(evs, i, stack) ==
  IF i > Len(evs) THEN stack = <<>>
  ELSE CASE evs[i].e = "start" -> Nested(evs, i + 1, Append(stack, evs[i].name))
         [] evs[i].e = "end"   -> stack # <<>> /\ stack[Len(stack)] = evs[i].name
                                   /\ Nested(evs, i + 1, SubSeq(stack, 1, Len(stack) - 1))
         [] OTHER -> Nested(evs, i + 1, stack)
=============================================================================
