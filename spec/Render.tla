------------------------------- MODULE Render -------------------------------
(***************************************************************************)
(* Enumerates every ordered tree with at most MaxNodes nodes and depth at  *)
(* most MaxDepth over the node kinds of RenderOps, each exactly once, by   *)
(* appending one node at a time to a tag on the rightmost spine (so a node *)
(* id is its pre-order number).  On every finished tree TLC checks C05,    *)
(* C06 and C07 against the code-shaped renderer, and exports the tree for  *)
(* replay through the real library.                                        *)
(***************************************************************************)
EXTENDS RenderOps, TLC, Json, IOUtils

CONSTANTS MaxNodes, MaxDepth, RootKinds, Kinds

VARIABLES tree, phase
vars == <<tree, phase>>

RECURSIVE Size(_), SpineDepth(_), AppendAt(_, _, _)
Size(x) == 1 + FoldLeft(LAMBDA a, ch : a + Size(ch), 0, x.c)
\* number of tag nodes on the rightmost spine below the root
SpineDepth(x) == IF Len(x.c) > 0 /\ IsTag(x.c[Len(x.c)]) THEN 1 + SpineDepth(x.c[Len(x.c)]) ELSE 0
AppendAt(x, j, new) == IF j = 0 THEN [x EXCEPT !.c = Append(@, new)]
                       ELSE [x EXCEPT !.c[Len(x.c)] = AppendAt(x.c[Len(x.c)], j - 1, new)]

Init == tree \in {N(k, 1, <<>>) : k \in RootKinds} /\ phase = "build"
Grow == /\ phase = "build" /\ Size(tree) < MaxNodes
        /\ \E j \in 0..SpineDepth(tree), k \in Kinds :
              /\ j + 2 <= MaxDepth
              /\ tree' = AppendAt(tree, j, N(k, Size(tree) + 1, <<>>))
        /\ UNCHANGED phase
Finish == phase = "build" /\ phase' = "done" /\ UNCHANGED tree
Next == Grow \/ Finish
Spec == Init /\ [][Next]_vars

Indents == {0, 2}
AddWsArgs == IF IsList(tree) THEN BOOLEAN ELSE {TRUE}

InvC05 == phase = "done" =>
  \A ind \in Indents, eol \in BOOLEAN, aw \in AddWsArgs : C05Holds(tree, Render(tree, ind, eol, aw))
InvC06 == phase = "done" =>
  \A ind \in Indents, eol \in BOOLEAN : C06Holds(tree, ind, eol, Render(tree, ind, eol, TRUE))
InvC07 == phase = "done" =>
  \A ind \in Indents, eol \in BOOLEAN, aw \in AddWsArgs :
      C07Holds(tree, Render(tree, ind, eol, aw), Render(Strip(tree), ind, eol, aw))
\* a void-named tag is self-closed exactly when nothing but metadata is inside it
InvVoid == phase = "done" =>
  LET out == Render(tree, 0, TRUE, TRUE)  nodes == PreOrder(tree) IN
  \A i \in 1..Len(out) : out[i][1] = "void" <=>
       (out[i][1] \in {"void", "open"} /\ KindOf(nodes, out[i][2]) \in {"V", "W"}
        /\ LET n == CHOOSE n \in {nodes[k] : k \in 1..Len(nodes)} : n.id = out[i][2] IN NonMeta(n.c) = <<>>)
\* every non-metadata node is emitted exactly once, in document order
InvOnce == phase = "done" =>
  LET out == Render(tree, 2, TRUE, TRUE)
      content == SelectSeq(out, LAMBDA t : t[1] \in {"open", "void", "leaf"})
      expect == SelectSeq(PreOrder(Strip(tree)), LAMBDA n : ~IsList(n) /\ n.k # "E")
  IN Len(content) = Len(expect) /\ \A i \in 1..Len(expect) : content[i][2] = expect[i].id

\* C01 at token level: without its layout tokens the output is exactly the pre-order walk of the
\* tree without metadata - every tag opened and closed once, properly nested, void form exactly
\* for childless void names, leaves in place
RECURSIVE Walk(_)
Walk(x) == IF IsMeta(x) THEN <<>>
           ELSE IF ~IsTag(x) /\ ~IsList(x) THEN (IF x.k = "E" THEN <<>> ELSE <<Tok("leaf", x.id)>>)
           ELSE LET inner == FlattenSeq([i \in 1..Len(x.c) |-> Walk(x.c[i])]) IN
                IF IsList(x) THEN inner
                ELSE IF IsVoid(x) /\ NonMeta(x.c) = <<>> THEN <<Tok("void", x.id)>>
                ELSE <<Tok("open", x.id)>> \o inner \o <<Tok("close", x.id)>>
InvC01 == phase = "done" =>
  \A ind \in Indents, eol \in BOOLEAN :
     SelectSeq(Render(tree, ind, eol, TRUE), LAMBDA t : ~IsLayout(t)) = Walk(tree)

Export == phase = "done" =>
   Serialize(ToJson([tree |-> tree]) \o "\n", IOEnv.EXPORT_FILE,
             [format |-> "TXT", charset |-> "UTF-8", openOptions |-> <<"WRITE", "CREATE", "APPEND">>]).exitValue = 0
=============================================================================
