----------------------------- MODULE RenderOps -----------------------------
(***************************************************************************)
(* Tag.get_html_string / TagList.get_html_string at the level of layout    *)
(* tokens, plus the property-level readings of C05, C06 and C07.           *)
(*                                                                         *)
(* A node is [k, id, c, tail]:                                             *)
(*   k    "B" block tag (add_ws), "I" inline tag, "V" block tag with a     *)
(*        void name, "W" inline tag with a void name, "L" a top-level      *)
(*        TagList (root only), "T" text, "H" HTML(), "R" _repr_html_       *)
(*        object, "M" metadata node, "E" the empty string ("" or HTML("")): *)
(*        a text child that emits nothing;                                 *)
(*   id   unique within the tree (pre-order number in enumerated trees);   *)
(*   c    children (tags and lists only);                                  *)
(*   tail for leaves: layout-like tokens that the leaf's own payload ends  *)
(*        with (text ending in a line break and spaces) - they are part    *)
(*        of the content, not layout.                                      *)
(*   pre  likewise, tokens the payload BEGINS with (text that starts with  *)
(*        a line break, e.g. the content of a <pre>).                      *)
(* Output is a sequence of tokens <<kind, id>>:                            *)
(*   ind (one indentation unit), eol, open, void (self-closed), close,     *)
(*   leaf.                                                                 *)
(* RTag/RList transcribe the code (the prev_was_add_ws / first_child       *)
(* sibling state machine); Lines/Flat transcribe the documented rule.      *)
(***************************************************************************)
EXTENDS Naturals, Sequences, FiniteSets, SequencesExt

TagKinds  == {"B", "I", "V", "W"}
LeafKinds == {"T", "H", "R", "M", "E"}

N(k, id, c) == [k |-> k, id |-> id, c |-> c, tail |-> <<>>, pre |-> <<>>]

IsTag(x)  == x.k \in TagKinds
AddWs(x)  == x.k \in {"B", "V"}
IsVoid(x) == x.k \in {"V", "W"}
IsMeta(x) == x.k = "M"
IsText(x) == x.k \in {"T", "H", "E"}     \* isinstance(child, (str, HTML))
IsList(x) == x.k = "L"

NonMeta(s) == SelectSeq(s, LAMBDA x : ~IsMeta(x))

Tok(kind, id) == <<kind, id>>
IND == Tok("ind", 0)
EOL == Tok("eol", 0)
Ind(n) == [i \in 1..n |-> IND]
LeafToks(x) == IF x.k = "E" THEN <<>> ELSE x.pre \o <<Tok("leaf", x.id)>> \o x.tail

-----------------------------------------------------------------------------
(* Code-shaped renderer *)

RECURSIVE RTag(_, _, _), RList(_, _, _, _, _, _)
\* Tag.get_html_string(indent, eol); eol is BOOLEAN (FALSE: the empty string)
RTag(x, indent, eol) ==
  LET kids == NonMeta(x.c)                               \* children filtered before the decisions
      open == Ind(indent) \o <<Tok("open", x.id)>>
      E    == IF eol THEN <<EOL>> ELSE <<>>
  IN IF Len(kids) = 0 /\ IsVoid(x) THEN Ind(indent) \o <<Tok("void", x.id)>>
     ELSE IF Len(kids) = 0 THEN open \o <<Tok("close", x.id)>>
     ELSE IF Len(kids) = 1 /\ IsText(kids[1]) THEN open \o LeafToks(kids[1]) \o <<Tok("close", x.id)>>
     ELSE open \o (IF AddWs(x) THEN E ELSE <<>>)
          \o RList(x.c, 1, TRUE, AddWs(x), indent + 1, eol)
          \o (IF AddWs(x) THEN E \o Ind(indent) ELSE <<>>)
          \o <<Tok("close", x.id)>>

\* the `for child in self` loop of TagList.get_html_string from child i on;
\* first = first_child, prev = prev_was_add_ws
RList(c, i, first, prev, indent, eol) ==
  IF i > Len(c) THEN <<>>
  ELSE LET ch == c[i] IN
    IF IsMeta(ch) THEN RList(c, i + 1, first, prev, indent, eol)      \* `continue` before any state update
    ELSE
      LET poc == prev \/ (IsTag(ch) /\ AddWs(ch))                      \* prev_or_current_add_ws
          sep == IF ~first /\ poc /\ eol THEN <<EOL>> ELSE <<>>
      IN IF IsTag(ch) THEN
            sep \o (IF poc THEN RTag(ch, indent, eol) ELSE RTag(ch, 0, FALSE))
                \o RList(c, i + 1, FALSE, AddWs(ch), indent, eol)
         ELSE sep \o (IF prev THEN Ind(indent) ELSE <<>>) \o LeafToks(ch)
                \o RList(c, i + 1, FALSE, FALSE, indent, eol)

\* x.get_html_string(indent, eol[, add_ws]) for a Tag or a top-level TagList
Render(x, indent, eol, addws) ==
  IF IsList(x) THEN RList(x.c, 1, TRUE, addws, indent, eol) ELSE RTag(x, indent, eol)

-----------------------------------------------------------------------------
(* Tree helpers *)

RECURSIVE PreOrder(_)
PreOrder(x) == <<x>> \o FlattenSeq([i \in 1..Len(x.c) |-> PreOrder(x.c[i])])
KindOf(nodes, id) == (CHOOSE n \in {nodes[i] : i \in 1..Len(nodes)} : n.id = id).k
HasId(nodes, id) == \E i \in 1..Len(nodes) : nodes[i].id = id

RECURSIVE HasBlock(_), InScope(_), Strip(_)
\* the subtree contains a whitespace-enabled tag
HasBlock(x) == (IsTag(x) /\ AddWs(x)) \/ \E i \in 1..Len(x.c) : HasBlock(x.c[i])
\* C06's scope: no inline tag contains a block tag
InScope(x) == (IsTag(x) /\ ~AddWs(x) => ~HasBlock(x)) /\ \A i \in 1..Len(x.c) : InScope(x.c[i])
\* the tree without its metadata nodes
Strip(x) == [x EXCEPT !.c = LET nm == NonMeta(x.c) IN [i \in 1..Len(nm) |-> Strip(nm[i])]]

\* exact concatenation of a subtree that has no whitespace-enabled tag
RECURSIVE Inline(_)
Inline(x) ==
  IF IsMeta(x) THEN <<>>
  ELSE IF ~IsTag(x) /\ ~IsList(x) THEN LeafToks(x)
  ELSE LET inner == FlattenSeq([i \in 1..Len(x.c) |-> Inline(x.c[i])]) IN
       IF IsList(x) THEN inner
       ELSE IF Len(NonMeta(x.c)) = 0 /\ IsVoid(x) THEN <<Tok("void", x.id)>>
       ELSE <<Tok("open", x.id)>> \o inner \o <<Tok("close", x.id)>>

IsSubSeq(s, t) == s = <<>> \/ \E k \in 0..(Len(t) - Len(s)) : SubSeq(t, k + 1, k + Len(s)) = s

-----------------------------------------------------------------------------
(* C05 *)

\* (i) every maximal subtree without a whitespace-enabled tag appears contiguously, exactly
RECURSIVE C05i(_, _)
C05i(x, out) ==
  IF ~HasBlock(x) /\ ~IsList(x) THEN IsSubSeq(Inline(x), out)
  ELSE \A i \in 1..Len(x.c) : C05i(x.c[i], out)

\* (ii) adjacent (metadata aside) siblings neither containing a block tag: nothing in between
RECURSIVE C05ii(_, _)
C05ii(x, out) ==
  LET nm == NonMeta(x.c) IN
  /\ \A i \in 1..(Len(nm) - 1) :
        (~HasBlock(nm[i]) /\ ~HasBlock(nm[i + 1])) => IsSubSeq(Inline(nm[i]) \o Inline(nm[i + 1]), out)
  /\ \A i \in 1..Len(x.c) : C05ii(x.c[i], out)

\* (iii) inside a rendered tag, a run of layout tokens touches the open or close tag of a block tag
IsLayout(t) == t[1] \in {"ind", "eol"}
BlockEdge(nodes, t) == t[1] \in {"open", "close", "void"} /\ HasId(nodes, t[2]) /\ KindOf(nodes, t[2]) \in {"B", "V"}
C05iii(x, out) ==
  LET nodes == PreOrder(x)
      \* content tails are not layout: only tokens with id 0 that are not part of a leaf tail count;
      \* tails directly follow their leaf token, so a layout token preceded (through layout) by a leaf
      \* with a non-empty tail is skipped by construction of the generators (tails only in C06 runs)
      first == IF IsList(x) THEN 1 ELSE (CHOOSE i \in 1..Len(out) : ~IsLayout(out[i]))
      last  == IF IsList(x) THEN Len(out) ELSE (CHOOSE i \in 1..Len(out) : ~IsLayout(out[i]) /\ \A j \in (i + 1)..Len(out) : IsLayout(out[j]))
  IN \A i \in first..last :
       IsLayout(out[i]) =>
         LET lo == CHOOSE a \in 0..i : (a = 0 \/ ~IsLayout(out[a])) /\ \A b \in (a + 1)..i : IsLayout(out[b])
             hi == CHOOSE a \in i..(Len(out) + 1) : (a = Len(out) + 1 \/ ~IsLayout(out[a])) /\ \A b \in i..(a - 1) : IsLayout(out[b])
         IN \/ (lo >= 1 /\ BlockEdge(nodes, out[lo]))
            \/ (hi <= Len(out) /\ BlockEdge(nodes, out[hi]))
            \/ (IsList(x) /\ (lo = 0 \/ hi = Len(out) + 1))

C05Holds(x, out) == C05i(x, out) /\ C05ii(x, out) /\ C05iii(x, out)

-----------------------------------------------------------------------------
(* C06: the documented line-and-indent rule, written independently of the     *)
(* sibling state machine.  A line is [lv, toks].                              *)

Line(lv, toks) == [lv |-> lv, toks |-> toks]
OneLine(x) == Len(NonMeta(x.c)) = 0 \/ (Len(NonMeta(x.c)) = 1 /\ IsText(NonMeta(x.c)[1]))

RECURSIVE Lines(_, _), Sibs(_, _, _, _, _)
Lines(x, lv) ==
  IF ~AddWs(x) \/ OneLine(x) THEN <<Line(lv, Inline(x))>>
  ELSE <<Line(lv, <<Tok("open", x.id)>>)>> \o Sibs(NonMeta(x.c), 1, lv + 1, <<>>, FALSE) \o <<Line(lv, <<Tok("close", x.id)>>)>>
\* children from i on; run = tokens of the current run of adjacent non-block children, has = the run has
\* a member (a run of empty strings has members but no tokens: it still occupies its own - empty - line)
Sibs(nm, i, lv, run, has) ==
  IF i > Len(nm) THEN (IF ~has THEN <<>> ELSE <<Line(lv, run)>>)
  ELSE IF IsTag(nm[i]) /\ AddWs(nm[i])
       THEN (IF ~has THEN <<>> ELSE <<Line(lv, run)>>) \o Lines(nm[i], lv) \o Sibs(nm, i + 1, lv, <<>>, FALSE)
       ELSE Sibs(nm, i + 1, lv, run \o Inline(nm[i]), TRUE)
Flat(lines, eol) ==
  FlattenSeq([i \in 1..Len(lines) |->
     (IF i > 1 /\ eol THEN <<EOL>> ELSE <<>>) \o Ind(lines[i].lv) \o lines[i].toks])
Layout(x, indent, eol) ==
  IF IsList(x) THEN Flat(Sibs(NonMeta(x.c), 1, indent, <<>>, FALSE), eol) ELSE Flat(Lines(x, indent), eol)

C06Holds(x, indent, eol, out) == InScope(x) => out = Layout(x, indent, eol)

\* The two relational clauses of C06 (indent=k shifts every layout line by k units; eol only
\* replaces the separator) are consequences of out = Layout(x, indent, eol) holding for every
\* indent and both eol settings, which is how they are checked.
RECURSIVE NoTails(_)
NoTails(x) == x.tail = <<>> /\ x.pre = <<>> /\ \A i \in 1..Len(x.c) : NoTails(x.c[i])
-----------------------------------------------------------------------------
(* C07 *)
C07Holds(x, out, outStripped) == out = outStripped
=============================================================================
