----------------------------- MODULE TraceBase -----------------------------
(***************************************************************************)
(* Shared plumbing of the trace specifications (code -> spec binding).     *)
(* Traces recorded from the real library are read from the ndjson file     *)
(* named by the environment variable TRACE_FILE; one state variable `tid`  *)
(* selects a trace, and the single action of each trace specification      *)
(* computes, from the operators of the specification proper, the list of   *)
(* property clauses that the recorded observation falsifies, and appends   *)
(* exactly one verdict line {tid, fail, ...} to VERDICT_FILE.  Verdicts    *)
(* are therefore total: a missing line is a machinery error, never a pass. *)
(***************************************************************************)
EXTENDS Naturals, Sequences, TLC, Json, IOUtils

Traces == ndJsonDeserialize(IOEnv.TRACE_FILE)

LogVerdict(r) ==
  Serialize(ToJson(r) \o "\n", IOEnv.VERDICT_FILE,
            [format |-> "TXT", charset |-> "UTF-8",
             openOptions |-> <<"WRITE", "CREATE", "APPEND">>]).exitValue = 0

\* the failing clauses among a sequence of <<name, holds>> pairs
Failing(cl) == LET idx == {i \in 1..Len(cl) : ~cl[i][2]} IN
               [k \in 1..Len(cl) |-> IF k \in idx THEN cl[k][1] ELSE ""]
Compact(seq) == LET RECURSIVE C(_)
                    C(i) == IF i > Len(seq) THEN <<>>
                            ELSE IF seq[i] = "" THEN C(i + 1) ELSE <<seq[i]>> \o C(i + 1)
                IN C(1)
FailList(cl) == Compact(Failing(cl))

\* Stateless observations are judged in chunks: one TLC state (and one appended
\* line) per ChunkSize traces, so that 16 workers share the work and the cost of
\* opening the verdict file is amortised.
ChunkSize == 64
NChunks == (Len(Traces) + ChunkSize - 1) \div ChunkSize
ChunkLo(c) == (c - 1) * ChunkSize + 1
ChunkHi(c) == IF c * ChunkSize < Len(Traces) THEN c * ChunkSize ELSE Len(Traces)
\* Judge(e) must return the record to log for trace e (it gets a tid field added)
LogChunk(c, Judge(_)) ==
  LogVerdict([chunk |-> c,
              v |-> [k \in 1..(ChunkHi(c) - ChunkLo(c) + 1) |->
                       [tid |-> ChunkLo(c) + k - 1, r |-> Judge(Traces[ChunkLo(c) + k - 1])]]])
=============================================================================
