---------------------------- MODULE HtmlMethods ----------------------------
(***************************************************************************)
(* Beyond C04: HTML is a collections.UserString, so besides + / += (C04,    *)
(* HtmlStrOps) it inherits every str method.  What matters for safety is    *)
(* what each of them does to the TRUST MARK and to plain text that enters   *)
(* through an argument.  Values are abstracted as in HtmlStrOps: a sequence *)
(* of pieces [k, n] - k = "H" (came from trusted markup) or "S" (came from  *)
(* a plain string), n = how often html_escape has been applied to it.       *)
(*                                                                         *)
(* Method classes (Class gives the class of every method; bin/extra html    *)
(* checks the table against the real class, method by method):              *)
(*   keep    result is HTML(); no plain text enters (upper, strip, slicing, *)
(*           repetition, ...)                                               *)
(*   escape  result is HTML(); the plain argument is escaped once (+, +=,   *)
(*           reflected +)                                     [C04's rule]  *)
(*   raw     result is HTML(); the plain argument is inserted UNESCAPED     *)
(*           (%, replace, ljust / rjust / center fill characters)           *)
(*   drop    result is a plain str (or a list / tuple of them): the mark is *)
(*           lost (join, format, split, partition, str())                   *)
(* Rendering a value as a child escapes it iff it is not HTML().            *)
(***************************************************************************)
EXTENDS Naturals, Sequences, FiniteSets, TLC, HtmlMethodsTable

CONSTANTS MaxOps, Allowed      \* Allowed: the method classes a history may use
VARIABLES val, n
vars == <<val, n>>
P(k, c) == [k |-> k, n |-> c]
Init == val = [html |-> TRUE, pieces |-> <<P("H", 0)>>] /\ n = 0
Apply(v, c) ==
  CASE c = "keep"   -> v
    [] c = "escape" -> IF v.html THEN [v EXCEPT !.pieces = Append(@, P("S", 1))]
                       ELSE [v EXCEPT !.pieces = Append(@, P("S", 0))]          \* str + str
    [] c = "raw"    -> [v EXCEPT !.pieces = Append(@, P("S", 0))]               \* mark kept (or plain stays plain)
    [] c = "drop"   -> [v EXCEPT !.html = FALSE]
Step == n < MaxOps /\ \E c \in Allowed : val' = Apply(val, c) /\ n' = n + 1
Spec == Init /\ [][Step]_vars

\* what a parser sees when the value is rendered as a child: escapes applied to each piece
Rendered(v) == IF v.html THEN v.pieces ELSE [j \in 1..Len(v.pieces) |-> [v.pieces[j] EXCEPT !.n = @ + 1]]
\* no plain text reaches the output unescaped (the safety half of C04's second sentence)
InvPlainAlwaysEscaped == \A j \in 1..Len(Rendered(val)) : Rendered(val)[j].k = "S" => Rendered(val)[j].n >= 1
\* trusted markup is never escaped (the fidelity half)
InvTrustedVerbatim == \A j \in 1..Len(Rendered(val)) : Rendered(val)[j].k = "H" => Rendered(val)[j].n = 0
\* nothing is ever escaped twice
InvAtMostOnce == \A j \in 1..Len(Rendered(val)) : Rendered(val)[j].n <= 1
=============================================================================
