-------------------------- MODULE HtmlMethodsTable --------------------------
(* The classification of HTML()'s string methods (see HtmlMethods.tla), shared by the model and the trace specification. *)
Keep   == {"upper", "lower", "strip", "lstrip", "rstrip", "title", "capitalize", "swapcase", "casefold",
           "slice", "mul", "rmul", "expandtabs", "zfill", "removeprefix", "removesuffix", "translate"}
Escape == {"add", "radd", "iadd"}
Raw    == {"mod", "replace", "ljust", "rjust", "center"}
Drop   == {"join", "format", "format_map", "fstring", "str", "as_string", "split", "rsplit", "splitlines", "partition", "rpartition"}
Methods == Keep \cup Escape \cup Raw \cup Drop
Class(m) == CASE m \in Keep -> "keep" [] m \in Escape -> "escape" [] m \in Raw -> "raw" [] m \in Drop -> "drop"

=============================================================================
