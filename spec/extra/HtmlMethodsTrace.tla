------------------------- MODULE HtmlMethodsTrace -------------------------
(* {m, cls, rendered}: method m was called on a real HTML() value with a plain, markup-laden argument; cls is the  *)
(* class the harness OBSERVED (type of the result, and whether the argument's text came back escaped, raw or not  *)
(* at all); rendered = how the argument's text looks once the result is rendered as a child ("escaped" | "raw" |  *)
(* "twice" | "absent").  The table of HtmlMethods must agree, and so must the rendering rule.                       *)
EXTENDS TraceBase, HtmlMethodsTable
VARIABLES tid, verdict
tvars == <<tid, verdict>>
Expect(c) == CASE c = "escape" -> "escaped" [] c = "raw" -> "raw" [] c = "drop" -> "escaped" [] c = "keep" -> "absent"
Clauses(e) ==
  << <<"X:MethodIsInTheTable", e.m \in Methods>>,
     <<"X:ObservedClassIsTheTableClass", e.m \in Methods => e.cls = Class(e.m)>>,
     <<"X:RenderingFollowsTheMark", e.m \in Methods => (e.rendered = "absent" \/ e.rendered = Expect(Class(e.m)))>>,
     <<"KNOWN:PlainArgumentReachesTheOutputUnescaped", e.rendered # "raw">> >>
Judge(e) == [fail |-> FailList(Clauses(e))]
TInit == tid \in 1..NChunks /\ verdict = "run"
Check == /\ verdict = "run" /\ verdict' = "done" /\ LogChunk(tid, Judge) /\ UNCHANGED tid
TSpec == TInit /\ [][Check]_tvars
=============================================================================
