CONSTANTS
  MaxOps = 4
  Allowed = {"keep", "escape", "drop"}
SPECIFICATION Spec
INVARIANT InvPlainAlwaysEscaped
INVARIANT InvTrustedVerbatim
INVARIANT InvAtMostOnce
CHECK_DEADLOCK FALSE
