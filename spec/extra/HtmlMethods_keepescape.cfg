CONSTANTS
  MaxOps = 4
  Allowed = {"keep", "escape"}
SPECIFICATION Spec
INVARIANT InvPlainAlwaysEscaped
INVARIANT InvTrustedVerbatim
INVARIANT InvAtMostOnce
CHECK_DEADLOCK FALSE
