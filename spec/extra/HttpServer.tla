----------------------------- MODULE HttpServer -----------------------------
(***************************************************************************)
(* Beyond the listed properties (DESIGN.md section 5, item 4): the only     *)
(* concurrent code in the package.  htmltools._util.ensure_http_server:     *)
(*                                                                         *)
(*     server = _http_servers.get(path)        \* Check                      *)
(*     if server: return server.port                                        *)
(*     _http_servers[path] = start_http_server(path)   \* Start ; Store      *)
(*     return _http_servers[path].port         \* Read                       *)
(*                                                                         *)
(* called by Tag.show()/TagList.show() (renderer="browser").  Callers are   *)
(* threads; the module-level dict is the shared state; start_http_server    *)
(* picks a free port and starts a daemon thread serving `path`.             *)
(* The check-then-act is not atomic: TLC shows that two callers for the     *)
(* same path can both start a server (OneServerPerPath is violated with     *)
(* two callers), that the first caller may then RETURN THE OTHER SERVER'S   *)
(* PORT (ReturnsOwnOrRegistered still holds: the port returned is always    *)
(* that of a running server for the path, which is why show() keeps         *)
(* working), and that with one caller per path everything is fine.          *)
(* harness/extra/http_race.py drives the real function along the            *)
(* counterexample with a deterministic two-thread schedule.                 *)
(***************************************************************************)
EXTENDS Naturals, FiniteSets, Sequences, TLC

CONSTANTS Callers, Paths, PathOf     \* PathOf: [Callers -> Paths]

VARIABLES pc,        \* [Callers -> "check" | "start" | "store" | "read" | "done"]
          registry,  \* [Paths -> server id or 0]  (_http_servers)
          servers,   \* set of started servers [id, path]
          mine,      \* [Callers -> id of the server this caller started, 0 if none]
          ret        \* [Callers -> returned server id, 0 if not returned yet]
vars == <<pc, registry, servers, mine, ret>>

Init == /\ pc = [c \in Callers |-> "check"] /\ registry = [p \in Paths |-> 0]
        /\ servers = {} /\ mine = [c \in Callers |-> 0] /\ ret = [c \in Callers |-> 0]

Check(c) == /\ pc[c] = "check"
            /\ IF registry[PathOf[c]] # 0
               THEN pc' = [pc EXCEPT ![c] = "done"] /\ ret' = [ret EXCEPT ![c] = registry[PathOf[c]]]
               ELSE pc' = [pc EXCEPT ![c] = "start"] /\ UNCHANGED ret
            /\ UNCHANGED <<registry, servers, mine>>
\* start_http_server: a new server thread on a fresh port
Start(c) == /\ pc[c] = "start"
            /\ LET id == Cardinality(servers) + 1 IN
               /\ servers' = servers \cup {[id |-> id, path |-> PathOf[c]]}
               /\ mine' = [mine EXCEPT ![c] = id]
            /\ pc' = [pc EXCEPT ![c] = "store"] /\ UNCHANGED <<registry, ret>>
Store(c) == /\ pc[c] = "store" /\ registry' = [registry EXCEPT ![PathOf[c]] = mine[c]]
            /\ pc' = [pc EXCEPT ![c] = "read"] /\ UNCHANGED <<servers, mine, ret>>
Read(c)  == /\ pc[c] = "read" /\ ret' = [ret EXCEPT ![c] = registry[PathOf[c]]]
            /\ pc' = [pc EXCEPT ![c] = "done"] /\ UNCHANGED <<registry, servers, mine>>
Next == \E c \in Callers : Check(c) \/ Start(c) \/ Store(c) \/ Read(c)
Spec == Init /\ [][Next]_vars /\ WF_vars(Next)

\* what one would like: never two servers for one path (FALSE with two callers of one path)
OneServerPerPath == \A s, t \in servers : s.path = t.path => s.id = t.id
\* what the code does guarantee: a returned port belongs to a started server for the caller's path
ReturnsServerForPath == \A c \in Callers : ret[c] # 0 => \E s \in servers : s.id = ret[c] /\ s.path = PathOf[c]
\* and the registry only ever names started servers of that path
RegistryConsistent == \A p \in Paths : registry[p] # 0 => \E s \in servers : s.id = registry[p] /\ s.path = p
\* at most one server per caller: the leak is bounded by the number of concurrent first calls
LeakBounded == Cardinality(servers) <= Cardinality(Callers)
AllReturn == <>(\A c \in Callers : pc[c] = "done")
=============================================================================
