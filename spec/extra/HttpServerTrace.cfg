CONSTANTS
  Callers = {"a", "b"}
  Paths = {"p"}
  PathOf <- SamePath
SPECIFICATION TraceSpec
INVARIANT ReturnsServerForPath
INVARIANT RegistryConsistent
POSTCONDITION TraceAccepted
CHECK_DEADLOCK FALSE
