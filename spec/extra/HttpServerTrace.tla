-------------------------- MODULE HttpServerTrace --------------------------
(* Classic trace validation of one recorded two-thread execution of the real   *)
(* ensure_http_server against HttpServer: each logged event must be the next   *)
(* step of some behaviour of the specification.  Events are logged by the      *)
(* harness under one lock with a sequence number: "check" (dict.get), "start"  *)
(* (start_http_server entered), "store" (dict.__setitem__), "read"             *)
(* (dict.__getitem__) and "ret" (the value returned, checked against ret').    *)
EXTENDS HttpServer, Json, IOUtils, TLCExt
TraceLog == ndJsonDeserialize(IOEnv.TRACE_FILE)
VARIABLE l
tvars == <<vars, l>>
TraceInit == Init /\ l = 1
IsEvent(c, e) == l <= Len(TraceLog) /\ TraceLog[l].c = c /\ TraceLog[l].ev = e /\ l' = l + 1
TraceNext == \E c \in Callers :
   \/ IsEvent(c, "check") /\ Check(c) /\ (TraceLog[l].hit = (registry[PathOf[c]] # 0))
   \/ IsEvent(c, "start") /\ Start(c)
   \/ IsEvent(c, "store") /\ Store(c)
   \/ IsEvent(c, "read")  /\ Read(c)
TraceSpec == TraceInit /\ [][TraceNext]_tvars
\* the whole trace was consumed
TraceAccepted == TLCGet("stats").diameter - 1 = Len(TraceLog)
\* observed in the recorded execution itself: two servers for one path
SawTwoServers == Cardinality(servers) < 2
=============================================================================
