CONSTANTS
  Callers = {"a", "b"}
  Paths = {"p", "q"}
  PathOf <- DistinctPaths
SPECIFICATION Spec
INVARIANT OneServerPerPath
INVARIANT ReturnsServerForPath
INVARIANT RegistryConsistent
PROPERTY AllReturn
CHECK_DEADLOCK FALSE
