\* two callers, one path: OneServerPerPath is expected to be VIOLATED (the documented race)
CONSTANTS
  Callers = {"a", "b"}
  Paths = {"p"}
  PathOf <- SamePath
SPECIFICATION Spec
INVARIANT OneServerPerPath
CHECK_DEADLOCK FALSE
