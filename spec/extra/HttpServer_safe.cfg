\* what does hold under every interleaving (two and three callers)
CONSTANTS
  Callers = {"a", "b", "c"}
  Paths = {"p"}
  PathOf <- ThreeSame
SPECIFICATION Spec
INVARIANT ReturnsServerForPath
INVARIANT RegistryConsistent
INVARIANT LeakBounded
PROPERTY AllReturn
CHECK_DEADLOCK FALSE
