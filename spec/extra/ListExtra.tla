----------------------------- MODULE ListExtra -----------------------------
(***************************************************************************)
(* Histories of child operations INCLUDING the mutators TagList inherits    *)
(* from UserList (NormalizeOps!ApplyInherited).  Two facts are established  *)
(* at design level and then bound to the real class by bin/extra list:      *)
(*   - without item assignment every history keeps AllNodes (the inherited  *)
(*     removers, Clear, Reverse and Copy cannot break C14's invariant);     *)
(*   - with item assignment AllNodes is violated (KNOWN-BEHAVIOUR: x[i] = 5 *)
(*     stores the int), and the violation needs exactly one SetItem of a    *)
(*     value that is not already a node.                                    *)
(***************************************************************************)
EXTENDS NormalizeOps, TLC
CONSTANTS ArgPool, MaxOps, Indices, WithSetItem

VARIABLES items, n, rawset
vars == <<items, n, rawset>>
Op(act, args, i) == [act |-> act, args |-> args, i |-> i, j |-> 0, n |-> 0]

Init == items = <<>> /\ n = 0 /\ rawset = FALSE
Do(op) == LET r == ApplyAny(items, op) IN
          /\ items' = r.items /\ n' = n + 1
          /\ rawset' = (rawset \/ (op.act = "SetItem" /\ r.exc = "none" /\ op.args[1].k \notin NodeKinds))
Next == /\ n < MaxOps
        /\ \/ \E a \in ArgPool : Do(Op("Append", <<a>>, 0))
           \/ \E a \in ArgPool, i \in Indices : Do(Op("Insert", <<a>>, i))
           \/ \E i \in Indices, act \in {"Pop", "DelItem"} : Do(Op(act, <<>>, i))
           \/ \E a \in ArgPool : Do(Op("Remove", <<a>>, 0))
           \/ \E act \in {"Clear", "Reverse", "Copy"} : Do(Op(act, <<>>, 0))
           \/ WithSetItem /\ \E a \in ArgPool, i \in Indices : Do(Op("SetItem", <<a>>, i))
Spec == Init /\ [][Next]_vars

InvAllNodes == AllNodes(items)
\* the only way to an element that is not a node is an item assignment of a non-node value
InvOnlySetItemBreaks == AllNodes(items) \/ rawset
=============================================================================
