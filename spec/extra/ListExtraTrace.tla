-------------------------- MODULE ListExtraTrace --------------------------
(***************************************************************************)
(* Histories recorded from a real TagList, C14's operations mixed with the *)
(* inherited UserList mutators, judged step by step against                *)
(* NormalizeOps!ApplyAny (state := logged post, as in ListTrace).          *)
(*   hist : <<[op, exc, post, renders]>>                                    *)
(***************************************************************************)
EXTENDS TraceBase, NormalizeOps
VARIABLES tid, verdict
vars == <<tid, verdict>>
Nodes(p) == [i \in 1..Len(p) |-> Node(p[i].k, p[i].v)]
StepClauses(before, h) ==
  LET s == ApplyAny(before, h.op)  post == Nodes(h.post) IN
  << <<"X:ResultIsWhatTheSpecificationComputes", (~Loose(before, h.op) /\ s.exc = "none" /\ h.exc = "none") => post = s.items>>,
     <<"X:SameOutcome", ~Loose(before, h.op) => s.exc = h.exc>>,
     <<"X:FailedOperationLeavesListUnchanged", h.exc # "none" => post = before>>,
     <<"X:AListOfNodesRenders", AllNodes(post) => h.renders>>,
     <<"KNOWN:ElementThatIsNotANode", AllNodes(post)>> >>
RECURSIVE Walk(_, _, _)
Walk(hist, i, acc) ==
  IF i > Len(hist) THEN acc
  ELSE LET before == IF i = 1 THEN <<>> ELSE Nodes(hist[i - 1].post) IN
       Walk(hist, i + 1, acc \o FailList(StepClauses(before, hist[i])))
Judge(e) == [fail |-> Walk(e.hist, 1, <<>>)]
Init == tid \in 1..NChunks /\ verdict = "run"
Check == /\ verdict = "run" /\ verdict' = "done" /\ LogChunk(tid, Judge) /\ UNCHANGED tid
Spec == Init /\ [][Check]_vars
=============================================================================
