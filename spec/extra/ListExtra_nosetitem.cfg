CONSTANTS
  ArgPool <- MCArgs
  Indices <- MCIndices
  MaxOps = 4
  WithSetItem = FALSE
SPECIFICATION Spec
INVARIANT InvAllNodes
CHECK_DEADLOCK FALSE
