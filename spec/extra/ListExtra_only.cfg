CONSTANTS
  ArgPool <- MCArgs
  Indices <- MCIndices
  MaxOps = 4
  WithSetItem = TRUE
SPECIFICATION Spec
INVARIANT InvOnlySetItemBreaks
CHECK_DEADLOCK FALSE
