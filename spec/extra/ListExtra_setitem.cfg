CONSTANTS
  ArgPool <- MCArgs
  Indices <- MCIndices
  MaxOps = 3
  WithSetItem = TRUE
SPECIFICATION Spec
INVARIANT InvAllNodes
CHECK_DEADLOCK FALSE
