--------------------------- MODULE MC_HttpServer ---------------------------
EXTENDS HttpServer
SamePath == [c \in {"a", "b"} |-> "p"]
DistinctPaths == [c \in {"a", "b"} |-> IF c = "a" THEN "p" ELSE "q"]
ThreeSame == [c \in {"a", "b", "c"} |-> "p"]
=============================================================================
