---------------------------- MODULE MC_ListExtra ----------------------------
EXTENDS ListExtra
S(v) == Leaf("str", v)
MCArgs == { S("a"), S("b"), Leaf("num", "5"), Leaf("none", ""), Leaf("tag", "t1"), Leaf("bad", "o"),
            Cont("list", <<S("c"), Leaf("num", "3")>>) }
MCIndices == {-1, 0, 1, 2}
=============================================================================
