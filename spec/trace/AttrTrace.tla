----------------------------- MODULE AttrTrace -----------------------------
(***************************************************************************)
(* Validates recorded attribute histories of a real Tag against AttrOps.   *)
(*  hist : {hist: <<[op, items]>>, obs: <<[attrs, exc]>> (after each op),   *)
(*          tok: <<[n, seg]>> attributes tokenised from the rendered tag}   *)
(*  cons : {items, direct, cons, kidsSame, rebuiltEqual} consolidate_attrs  *)
(* C15 clauses compare stored names/values/order with the declarative      *)
(* reading (AfterCallSpec); C03 clauses judge what was written between the *)
(* quotes; the code-shaped operators only contribute DRIFT clauses.        *)
(***************************************************************************)
EXTENDS TraceBase, AttrOps, FiniteSets

VARIABLES tid, verdict
vars == <<tid, verdict>>

It(x) == <<x[1], x[2]>>
Items(o) == [k \in 1..Len(o.items) |-> It(o.items[k])]
BadOp(o) == \E k \in 1..Len(o.items) : IsBad(o.items[k][2])

\* property-level replay (declarative reading), and code-shaped replay
SpecStep(before, o) ==
  IF BadOp(o) THEN before
  ELSE CASE o.op \in {"new", "update"} -> AfterCallSpec(before, Items(o))
         [] o.op = "clone" -> before       \* a tag built from another tag's attribute map has the same attributes
         [] o.op = "setitem" -> IF Dropped(o.items[1][2]) THEN before
                                ELSE Put(before, NormName(o.items[1][1]), Norm(o.items[1][2]))
         [] o.op = "add"    -> AfterCallSpec(before, << <<o.items[1][1], Stored(before, o.items[1][1])>>, It(o.items[1]) >>)
         [] o.op = "addpre" -> AfterCallSpec(before, << It(o.items[1]), <<o.items[1][1], Stored(before, o.items[1][1])>> >>)
CodeStep(before, o) ==
  CASE o.op \in {"new", "update"} -> Update(before, Items(o)).attrs
    [] o.op = "clone" -> before
    [] o.op = "setitem" -> SetItem(before, o.items[1][1], o.items[1][2]).attrs
    [] o.op = "add"     -> AddVia(before, o.items[1][1], o.items[1][2], FALSE).attrs
    [] o.op = "addpre"  -> AddVia(before, o.items[1][1], o.items[1][2], TRUE).attrs

\* the sequence of attribute maps after each operation (computed once per trace)
RECURSIVE SpecStates(_, _, _), CodeStates(_, _, _)
SpecStates(h, i, acc) == IF i > Len(h) THEN acc
                         ELSE SpecStates(h, i + 1, Append(acc, SpecStep(IF i = 1 THEN <<>> ELSE acc[i - 1], h[i])))
CodeStates(h, i, acc) == IF i > Len(h) THEN acc
                         ELSE CodeStates(h, i + 1, Append(acc, CodeStep(IF i = 1 THEN <<>> ELSE acc[i - 1], h[i])))

\* does the real stored value agree with the expected one?
ValOk(exp, got) ==
  /\ exp.html = got.html
  /\ IF exp.html THEN MatchLoose(exp.ch, exp.md, got.t, AttrSpecials) = 0 ELSE got.t = exp.ch
AttrsOk(exp, got) ==
  /\ Len(exp) = Len(got)
  /\ \A i \in 1..Len(exp) : exp[i].n = got[i].n /\ ValOk(exp[i].v, got[i])
NamesOk(exp, got) == Len(exp) = Len(got) /\ \A i \in 1..Len(exp) : exp[i].n = got[i].n

Clauses(e) ==
  CASE e.k = "hist" ->
         LET n == Len(e.hist)
             ss == SpecStates(e.hist, 1, <<>>)
             cs == CodeStates(e.hist, 1, <<>>)
             final == IF n = 0 THEN <<>> ELSE ss[n]
         IN << <<"C15:NamesNormalisedInFirstAppearanceOrder",
                   \A i \in 1..n : ~BadOp(e.hist[i]) => NamesOk(ss[i], e.obs[i].attrs)>>,
               <<"C15:ValuesJoinedInArgumentOrderLaterCallsReplace",
                   \A i \in 1..n : ~BadOp(e.hist[i]) => AttrsOk(ss[i], e.obs[i].attrs)>>,
               \* a tag's attributes are a function of the calls made on THAT tag
               <<"C15:AttributesChangeOnlyThroughTheirOwnTag", \A i \in 1..n : e.obs[i].othersSame>>,
               <<"C03:AttributeNamesOnTag", Len(e.tok) = Len(final) /\ \A i \in 1..Len(final) : e.tok[i].n = final[i].n>>,
               <<"C03:ValueInert", Len(e.tok) = Len(final) =>
                   \A i \in 1..Len(final) : Match(final[i].v.ch, final[i].v.md, e.tok[i].seg, AttrSpecials) = 0>>,
               <<"DRIFT:AttrOpsCodeShape",
                   \A i \in 1..n : ~BadOp(e.hist[i]) => cs[i] = ss[i]>>,
               <<"DRIFT:TypeErrorOnUnsupportedValue",
                   \A i \in 1..n : (e.obs[i].exc = "TypeError") = BadOp(e.hist[i])>>,
               <<"DRIFT:UnchangedOnTypeError",
                   \A i \in 1..n : BadOp(e.hist[i]) => AttrsOk(ss[i], e.obs[i].attrs)>> >>
    [] e.k = "cons" ->
         LET its == [k \in 1..Len(e.items) |-> It(e.items[k])]
             exp == AfterCallSpec(<<>>, its) IN
         << <<"C15:ConsolidateAttrsEqualsDirectConstruction", AttrsOk(exp, e.cons) /\ AttrsOk(exp, e.direct)>>,
            <<"C15:ConsolidateAttrsReturnsChildrenUnchanged", e.kidsSame>>,
            <<"C15:RebuildFromConsolidatedEqualsDirect", e.rebuiltEqual>> >>

Judge(e) == [fail |-> FailList(Clauses(e))]
Init == tid \in 1..NChunks /\ verdict = "run"
Check == /\ verdict = "run" /\ verdict' = "done" /\ LogChunk(tid, Judge) /\ UNCHANGED tid
Spec == Init /\ [][Check]_vars
=============================================================================
