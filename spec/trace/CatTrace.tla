------------------------------ MODULE CatTrace ------------------------------
(* {call: [mod, f, addws, shape], exists, exc, name, ws, eq, same, fresh}     *)
EXTENDS TraceBase, CatalogueOps
VARIABLES tid, verdict
vars == <<tid, verdict>>
Clauses(e) ==
  LET x == Expected(e.call) IN
  << <<"C19:FunctionExists", e.exists>>,
     <<"C19:RejectsNonBooleanAddWs", e.exists => ((e.exc = "TypeError") = (x.exc = "TypeError"))>>,
     <<"C19:NoOtherError", e.exists => e.exc \in {"none", "TypeError"}>>,
     <<"C19:ElementNameIsFunctionName", (e.exists /\ e.exc = "none") => e.name = e.call.f>>,
     <<"C19:DefaultIsInlineExactlyForInlineClassification",
          (e.exists /\ e.exc = "none" /\ e.call.addws = "default") => e.ws = (e.call.f \notin Inline)>>,
     <<"C19:HonoursExplicitAddWs",
          (e.exists /\ e.exc = "none" /\ e.call.addws \in {"true", "false"}) => e.ws = (e.call.addws = "true")>>,
     <<"C19:PassesArgumentsThroughLikeTagConstructor", (e.exists /\ e.exc = "none") => e.eq>>,
     <<"C19:EachCallCreatesItsOwnElement", (e.exists /\ e.exc = "none") => e.fresh>>,
     <<"C19:TopLevelShortcutIsTheTagsFunction", (e.exists /\ e.call.mod = "top") => e.same>> >>
Judge(e) == [fail |-> FailList(Clauses(e))]
Init == tid \in 1..NChunks /\ verdict = "run"
Check == /\ verdict = "run" /\ verdict' = "done" /\ LogChunk(tid, Judge) /\ UNCHANGED tid
Spec == Init /\ [][Check]_vars
=============================================================================
