----------------------------- MODULE ClassTrace -----------------------------
(* hist : {init, hist: <<[op, tok, pre, res, exc, cls, sty, self, hasAfter]>>} *)
(* css  : {kw: <<[k, none, v]>>, out: [p, t], accepted}                        *)
EXTENDS TraceBase, ClassStyleOps
VARIABLES tid, verdict
vars == <<tid, verdict>>

StepClauses(b, h) ==
  CASE h.op = "add_class" ->
        << <<"C16:AddClassMakesTokenPresentWithoutDisturbingOthers",
               WsFree(h.tok) => (AddClassOk(b.cls, h.cls, h.tok, h.pre) /\ h.hasAfter /\ h.sty = b.sty)>>,
           <<"C16:MutatorsReturnTheTag", h.self>>,
           <<"DRIFT:ClassStyleCodeShape", h.cls = AddClass(b.cls, h.tok, h.pre)>> >>
    [] h.op = "remove_class" ->
        << <<"C16:RemoveClassRemovesExactlyThatTokenKeepsOrderDropsEmptyAttribute",
               WsFree(h.tok) => (RemoveClassOk(b.cls, h.cls, h.tok) /\ h.sty = b.sty)>>,
           <<"C16:MutatorsReturnTheTag", h.self>>,
           <<"DRIFT:ClassStyleCodeShape", h.cls = RemoveClass(b.cls, h.tok)>> >>
    [] h.op = "has_class" ->
        << <<"C16:HasClassIsWhitespaceTokenMembership",
               WsFree(h.tok) => (h.res = Has(Tokens(b.cls), h.tok) /\ h.cls = b.cls /\ h.sty = b.sty)>> >>
    [] h.op = "add_style" ->
        << <<"C16:AddStyleJoinsOrRejectsWithoutModifying", AddStyleOk(b.sty, h.sty, h.exc, h.tok, h.pre) /\ h.cls = b.cls>>,
           <<"C16:MutatorsReturnTheTag", h.exc = "none" => h.self>> >>

RECURSIVE Walk(_, _, _, _)
Walk(init, hist, i, acc) ==
  IF i > Len(hist) THEN acc
  ELSE LET b == IF i = 1 THEN init ELSE [cls |-> hist[i - 1].cls, sty |-> hist[i - 1].sty] IN
       Walk(init, hist, i + 1, acc \o FailList(StepClauses(b, hist[i]) \o
            \* the helpers change the tag they are called on and nothing else (a tag that was given the same value objects)
            << <<"C16:HelpersChangeOnlyTheirOwnTag", hist[i].twinSame>> >>))

Clauses(e) ==
  IF e.k = "obs" THEN FailList(<< <<"C16:" \o e.name, e.holds>> >>)
  ELSE IF e.k = "css" THEN FailList(
     << <<"C16:CssEmitsOneDeclarationPerNonNoneArgumentHyphenatedLowerCase", e.out = CssSpec(e.kw)>>,
        <<"C16:CssOutputAcceptedByAddStyle", e.out.p => e.accepted>>,
        <<"DRIFT:CssCodeShape", e.out = CssCode(e.kw, <<>>)>> >>)
  ELSE Walk([cls |-> e.init.cls, sty |-> e.init.sty], e.hist, 1, <<>>)

Judge(e) == [fail |-> Clauses(e)]
Init == tid \in 1..NChunks /\ verdict = "run"
Check == /\ verdict = "run" /\ verdict' = "done" /\ LogChunk(tid, Judge) /\ UNCHANGED tid
Spec == Init /\ [][Check]_vars
=============================================================================
