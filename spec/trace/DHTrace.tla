------------------------------ MODULE DHTrace ------------------------------
(***************************************************************************)
(* {tags, events: <<[act, t, g, v, hook, exc, kids, base]>>}: a program of *)
(* genuine `with tag:` statements run by the harness; after every event    *)
(* the harness records sys.displayhook (by object identity: "base", the    *)
(* hook object installed when tag t was entered, or "?"), the exception in *)
(* flight, every tag's children and what the base hook has received.       *)
(* The trace is replayed through the actions' step function (StepF).       *)
(***************************************************************************)
EXTENDS TraceBase, DisplayHookOps
VARIABLES tid, verdict
vars == <<tid, verdict>>

TagSet(e) == {e.tags[i] : i \in 1..Len(e.tags)}
KidsEq(s, ev, T) == \A t \in T : s.kids[t] = ev.kids[t]

EventClauses(sb, s, e, ev, T) ==
  << <<"DRIFT:ProgramNotWellFormed", Enabled(sb, ev)>>,
     <<"C17:HookAfterExitIsTheHookInstalledAtEntry", ev.act = "Exit" => ev.hook = s.hook>>,
     <<"C17:HookChainFollowsTheNesting", ev.act # "Exit" => ev.hook = s.hook>>,
     <<"C17:ChildrenAppendedInOrderUnderTheChildRules", KidsEq(s, ev, T)>>,
     <<"C17:EachTagHandedExactlyOnceOnExitToTheEnclosingHook", ev.base = s.base>>,
     <<"C17:InvalidValueRejectedWithTypeError",
          ((ev.act = "Display" /\ ev.v \in BadVals) => ev.exc = "TypeError")
          /\ ((ev.act = "DisplayC") => (ev.caught = (ev.v \in BadVals)))>>,
     <<"C17:ReenteringAnActiveTagRaises", (ev.act = "Enter" /\ Active(sb, ev.t)) => ev.raised>>,
     <<"C17:ExceptionsPropagateUnchanged", ev.exc = s.exc>> >>

RECURSIVE Walk(_, _, _, _)
Walk(e, i, s, acc) ==
  IF i > Len(e.events) THEN
       acc \o FailList(<< <<"C17:HookRestoredAfterOutermostBlock", s.stack = <<>> => e.final = "base">> >>)
  ELSE LET ev == e.events[i]  s2 == StepF(s, ev) IN
       IF ~Enabled(s, ev) THEN acc \o <<"DRIFT:ProgramNotWellFormed">>
       ELSE Walk(e, i + 1, s2, acc \o FailList(EventClauses(s, s2, e, ev, TagSet(e))))

Judge(e) == [fail |-> Walk(e, 1, Init0(TagSet(e)), <<>>)]
Init == tid \in 1..NChunks /\ verdict = "run"
Check == /\ verdict = "run" /\ verdict' = "done" /\ LogChunk(tid, Judge) /\ UNCHANGED tid
Spec == Init /\ [][Check]_vars
=============================================================================
