------------------------------ MODULE DepTrace ------------------------------
(* resolve : {tree, got, gotNoDedup, gotTagifiedNoDedup, gotRender, gotTwice}  *)
(* def     : {def, raised, sameSingle}                                         *)
EXTENDS TraceBase, DepOps
VARIABLES tid, verdict
vars == <<tid, verdict>>
D(x) == Dep(x.name, x.ver, x.pl)
Ds(s) == [i \in 1..Len(s) |-> D(s[i])]
RECURSIVE NT(_)
NT(x) == [k |-> x.k, c |-> [i \in 1..Len(x.c) |-> NT(x.c[i])], d |-> D(x.d)]
Clauses(e) ==
  IF e.k = "resolve" THEN
    LET all == Collect(NT(e.tree))  want == ResolveSpec(all) IN
    << <<"C10:OnePerNameHighestVersionEarliestOnTiesNamesByFirstOccurrence", Ds(e.got) = want /\ Ds(e.gotRender) = want /\ Ds(e.gotDoc) = want /\ Ds(e.gotDocGrown) = want>>,
       <<"C10:DedupDisabledDropsAndReordersNothing", Ds(e.gotNoDedup) = all /\ Ds(e.gotTagifiedNoDedup) = all>>,
       <<"C10:ResolutionIsIdempotent", Ds(e.gotTwice) = Ds(e.got)>>,
       \* what a tree reports is collected from that tree (a document built from it is another container)
       <<"C10:CollectedFromThatTreeOnly", e.fragSame>>,
       <<"DRIFT:ResolveCodeShape", Resolve(all) = Ds(e.got)>> >>
  ELSE
    << <<"C10:InvalidDefinitionRejectedAtConstruction", e.raised = ~DefOk(e.def)>>,
       <<"C10:SingleItemSameAsOneElementList", ~e.raised => e.sameSingle>> >>
Judge(e) == [fail |-> FailList(Clauses(e))]
Init == tid \in 1..NChunks /\ verdict = "run"
Check == /\ verdict = "run" /\ verdict' = "done" /\ LogChunk(tid, Judge) /\ UNCHANGED tid
Spec == Init /\ [][Check]_vars
=============================================================================
