------------------------------ MODULE DetTrace ------------------------------
(* runs : {runs: <<[p, seed, order, obs]>>}  what each interpreter process printed *)
(* pair : {nameA, nameB, sameContent, countInDoc, countInText}  two head_content payloads *)
EXTENDS TraceBase, Naturals
Functional(runs) ==
  \A a, b \in 1..Len(runs) : \A i \in 1..Len(runs[a].order), j \in 1..Len(runs[b].order) :
     runs[a].order[i] = runs[b].order[j] => runs[a].obs[i] = runs[b].obs[j]
SameSeedFunctional(runs) ==
  \A a, b \in 1..Len(runs) : runs[a].seed = runs[b].seed =>
     \A i \in 1..Len(runs[a].order), j \in 1..Len(runs[b].order) :
        runs[a].order[i] = runs[b].order[j] => runs[a].obs[i] = runs[b].obs[j]
Injective(p) == /\ (p.nameA = p.nameB) = p.sameContent
                /\ p.countInDoc = (IF p.sameContent THEN 1 ELSE 2)
                /\ p.countInText = (IF p.sameContent THEN 1 ELSE 2)
VARIABLES tid, verdict
vars == <<tid, verdict>>
Clauses(e) ==
  IF e.k = "runs" THEN
    << <<"C18:IndependentOfWhatWasBuiltOrRenderedEarlierInTheProcess",
            SameSeedFunctional(e.runs)
            \* (the items that keep objects for the lifetime of the process compare every rendering of them with a freshly
            \*  built twin themselves and report a difference with this marker instead of a digest)
            /\ \A a \in 1..Len(e.runs) : \A i \in 1..Len(e.runs[a].obs) : e.runs[a].obs[i] # "KEPT-DIFFERS-FROM-FRESH">>,
       <<"C18:IdenticalAcrossInterpreterProcessesAndHashSeeds", Functional(e.runs)>> >>
  ELSE
    << <<"C18:HeadContentNameIsAFunctionOfRenderedContentOnly", (e.nameA = e.nameB) = e.sameContent>>,
       <<"C18:EqualContentIncludedOnceDifferentContentNeverMerged", e.countInDoc = (IF e.sameContent THEN 1 ELSE 2)
                                                                          /\ e.countInText = (IF e.sameContent THEN 1 ELSE 2)>> >>
Judge(e) == [fail |-> FailList(Clauses(e))]
Init == tid \in 1..NChunks /\ verdict = "run"
Check == /\ verdict = "run" /\ verdict' = "done" /\ LogChunk(tid, Judge) /\ UNCHANGED tid
Spec == Init /\ [][Check]_vars
=============================================================================
