------------------------------ MODULE DocTrace ------------------------------
(* {content, args, prefix, inclver, events, deps, doctypeFirst}                *)
(* content/args: the abstract description of what the document was built      *)
(* from (dependency definitions read off the real objects); events: the real  *)
(* output through the HTML tokenizer; deps: the returned dependency list.      *)
EXTENDS TraceBase, DocumentOps
VARIABLES tid, verdict
vars == <<tid, verdict>>
Clauses(e) ==
  LET want == DocEvents(e.content, e.args, e.prefix, e.inclver)
      R == Resolved(e.content)
      at == Agree(want, e.events) IN
  << <<"C11:OneHtmlOneHeadCharsetUserHeadListingThenEachDependencyOnceInResolvedOrder", at = 0>>,
     <<"C11:StartsWithDoctype", e.doctypeFirst>>,
     <<"C11:ReturnedDependenciesAreExactlyTheResolvedList",
          Len(e.deps) = Len(R) /\ \A i \in 1..Len(R) : e.deps[i].name = R[i].name /\ e.deps[i].vstr = R[i].vstr>>,
     <<"DRIFT:DocumentCodeShape", Agree(<<Ev("other", "doctype", <<>>, <<>>)>>
                                         \o ElementView(RenderedView(GenTreeCode(e.content, e.args, e.prefix, e.inclver))), e.events) = 0>> >>
Judge(e) == [fail |-> FailList(Clauses(e)), at |-> Agree(DocEvents(e.content, e.args, e.prefix, e.inclver), e.events)]
Init == tid \in 1..NChunks /\ verdict = "run"
Check == /\ verdict = "run" /\ verdict' = "done" /\ LogChunk(tid, Judge) /\ UNCHANGED tid
Spec == Init /\ [][Check]_vars
=============================================================================
