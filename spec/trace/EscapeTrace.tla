---------------------------- MODULE EscapeTrace ----------------------------
(***************************************************************************)
(* Validates observations of the real library against the character-level  *)
(* predicates of EscapeOps.  Record kinds:                                  *)
(*  seg   : {p: property id, ctx: "text"|"attr", pieces: <<[m, t]>>, seg}    *)
(*          the emitted segment must Match the payload pieces (m = "esc":   *)
(*          plain origin, m = "raw": trusted origin)                        *)
(*  range : {ctx, lo, hi}  the library returned chr(c) unchanged for every  *)
(*          c in lo..hi: then no special of ctx may lie in lo..hi           *)
(*  flag  : {p, name, want, got}  a boolean observation with its expected   *)
(*          value computed by the harness from the abstract input only      *)
(*          (e.g. result is marked HTML <=> some operand was HTML)          *)
(*  model : {ctx, s, out} drift only: the real output vs Escape(s, ctx)     *)
(*  expr  : {e, payloads, isHtml, seg, same} an HTML()/str expression       *)
(*          evaluated by the real operators and rendered as a child         *)
(***************************************************************************)
EXTENDS TraceBase, EscapeOps, HtmlStrOps, FiniteSets

VARIABLES tid, verdict
vars == <<tid, verdict>>

Sp(ctx) == IF ctx = "attr" THEN AttrSpecials ELSE TextSpecials
Chars(pieces) == FlattenSeq([i \in 1..Len(pieces) |-> pieces[i].t])
Modes(pieces) == FlattenSeq([i \in 1..Len(pieces) |-> [j \in 1..Len(pieces[i].t) |-> pieces[i].m]])
HasEsc(pieces) == \E i \in 1..Len(pieces) : pieces[i].m = "esc"

Clauses(e) ==
  CASE e.k = "seg" ->
         LET ch == Chars(e.pieces) md == Modes(e.pieces) m == Match(ch, md, e.seg, Sp(e.ctx)) IN
         << <<e.p \o ":Match", m = 0>>,
            \* consequence stated by C02/C03: nothing of a plain piece can appear raw
            <<e.p \o ":Decodes", (\A i \in 1..Len(e.pieces) : e.pieces[i].m = "esc") => Decode(e.seg, 1) = ch>> >>
    [] e.k = "range" ->
         << <<e.p \o ":IdentityOnlyForOrdinary", \A c \in Sp(e.ctx) : ~(e.lo <= c /\ c <= e.hi)>> >>
    [] e.k = "flag" ->
         << <<e.p \o ":" \o e.name, e.want = e.got>> >>
    [] e.k = "expr" ->
         LET lv == Leaves(e.e)
             ps == [j \in 1..Len(lv) |-> [m |-> IF lv[j].op = "H" THEN "raw" ELSE "esc", t |-> e.payloads[lv[j].i]]]
         IN << <<"C04:ResultIsHtmlIffAnyOperandIs", e.isHtml = HasH(e.e)>>,
               <<"C04:EachPlainOperandEscapedOnce", Match(Chars(ps), Modes(ps), e.seg, TextSpecials) = 0>>,
               <<"C04:SameAsAdjacentChildren", e.same>>,
               <<"DRIFT:HtmlStrEval", Eval(e.e).ok /\ Eval(e.e).html = e.isHtml>> >>
    [] e.k = "model" ->
         << <<"DRIFT:Escape", Escape(e.s, e.ctx = "attr") = e.out>> >>

Judge(e) == [fail |-> FailList(Clauses(e)),
             at |-> IF e.k = "seg" THEN Match(Chars(e.pieces), Modes(e.pieces), e.seg, Sp(e.ctx)) ELSE 0]

Init == tid \in 1..NChunks /\ verdict = "run"
Check == /\ verdict = "run" /\ verdict' = "done" /\ LogChunk(tid, Judge) /\ UNCHANGED tid
Spec == Init /\ [][Check]_vars
=============================================================================
