----------------------------- MODULE FilesTrace -----------------------------
(***************************************************************************)
(* One record = one save_html() on real directories:                       *)
(*  deps   : <<[name, vstr, src, href, files, nlinks, allfiles, srcfiles,   *)
(*             urls]>>  files = listed stylesheet then script paths;        *)
(*             srcfiles = projection of the source directory <<[p, h]>>;    *)
(*             urls = the href/src values read from the written file        *)
(*  libdir, inclver; before / after = projection of the directory of the    *)
(*  written file (paths relative to it, the html file itself excluded);     *)
(*  raised, retok (returned path denotes the written file), written.        *)
(***************************************************************************)
EXTENDS TraceBase, DepFilesOps
VARIABLES tid, verdict
vars == <<tid, verdict>>

SetOf(s) == {[p |-> s[i].p, h |-> s[i].h] : i \in 1..Len(s)}
Local(d) == d.src \in {"dir", "package"}
DepRec(d) == [name |-> d.name, vstr |-> d.vstr, src |-> d.src, href |-> d.href, files |-> d.files, allfiles |-> d.allfiles]
TargetOf(e, d) == Join(e.libdir, DepDir(d.name, d.vstr, e.inclver))
Hash(src, f) == (CHOOSE x \in src : x.p = f).h

Clauses(e) ==
  LET before == SetOf(e.before)  after == SetOf(e.after)
      D == e.deps
      missing(d) == Local(d) /\ Missing(DepRec(d), SetOf(d.srcfiles)) # {}
      anyMissing == \E i \in 1..Len(D) : missing(D[i])
  IN
  << <<"C12:MissingListedFileRaises", anyMissing => e.raised>>,
     <<"C12:NoSpuriousFailure", ~anyMissing => ~e.raised>>,
     <<"C12:MissingListedFileLeavesTargetDirectoryUntouched",
          \A i \in 1..Len(D) : missing(D[i]) => Under(after, TargetOf(e, D[i])) = Under(before, TargetOf(e, D[i]))>>,
     <<"C12:UrlIsPrefixNameVersionEncodedPath",
          ~e.raised => \A i \in 1..Len(D) : \A k \in 1..Len(D[i].files) :
              (Local(D[i]) \/ (D[i].src = "url" /\ Quote(D[i].files[k]) = D[i].files[k]))
                 => D[i].urls[k] = UrlFor(DepRec(D[i]), e.libdir, e.inclver, D[i].files[k])>>,
     <<"C12:EveryLocalUrlDecodesToAByteIdenticalCopy",
          ~e.raised => \A i \in 1..Len(D) : Local(D[i]) => \A k \in 1..Len(D[i].files) :
              LET f == D[i].files[k]  src == SetOf(D[i].srcfiles) IN
              (\E x \in src : x.p = f) =>
                 \E y \in after : y.p = Unquote(D[i].urls[k]) /\ y.h = Hash(src, f)>>,
     <<"C12:TargetHoldsExactlyTheCopiedFilesStaleContentGone",
          ~e.raised => \A i \in 1..Len(D) : Local(D[i]) =>
              Under(after, TargetOf(e, D[i])) = Copied(DepRec(D[i]), SetOf(D[i].srcfiles))>>,
     <<"C12:AllFilesCopiesTheWholeSourceDirectory",
          ~e.raised => \A i \in 1..Len(D) : (Local(D[i]) /\ D[i].allfiles) =>
              Under(after, TargetOf(e, D[i])) = SetOf(D[i].srcfiles)>>,
     <<"C12:UrlSourcedAndSourcelessDependenciesCopyNothing",
          (\A i \in 1..Len(D) : ~Local(D[i])) => after = before>>,
     <<"C12:SaveHtmlReturnsThePathItWrote", ~e.raised => (e.retok /\ e.written)>> >>

Judge(e) == [fail |-> FailList(Clauses(e))]
Init == tid \in 1..NChunks /\ verdict = "run"
Check == /\ verdict = "run" /\ verdict' = "done" /\ LogChunk(tid, Judge) /\ UNCHANGED tid
Spec == Init /\ [][Check]_vars
=============================================================================
