----------------------------- MODULE HeapTrace -----------------------------
(***************************************************************************)
(* Validates recorded executions against the system specification's        *)
(* predicates (HeapOps / HtmlTools).  One record = one history on real     *)
(* objects: {heap0, roots0, events}; every event carries the projection    *)
(* of the whole object graph after it:                                     *)
(*   [op, ro, root, newroot, via, heap, roots, res, eq, flags...]          *)
(* ro       the operation is in C08's read-only list                       *)
(* tagify   newroot = the result; eq = (library's x == y)                  *)
(* mutate   via = index of the root through which a public mutator ran     *)
(* res      digest of the operation's result (repeatability)               *)
(***************************************************************************)
EXTENDS TraceBase, HeapOps
VARIABLES tid, verdict
vars == <<tid, verdict>>

Heap(hj) == hj     \* heaps arrive as sequences of Obj records
StructAll(h, rs) == [i \in 1..Len(rs) |-> Struct(h, IdRef(rs[i]))]

\* roots related by tagify(), as index pairs into roots
Related(pairs, i, j) == \E p \in 1..Len(pairs) : {pairs[p][1], pairs[p][2]} = {i, j}

EventClauses(hb, rb, pairs, prevres, ev) ==
  LET ha == ev.heap  ra == ev.roots
      sb == StructAll(hb, rb)
      sa == StructAll(ha, ra)
      unchanged(i) == sa[i] = sb[i]
  IN
  CASE ev.op = "tagify" ->
        LET src == rb[ev.root]  dst == ev.newroot IN
        << <<"C08:ReadOnlyOperationLeavesEveryReachableObjectStructurallyUnchanged", \A i \in 1..Len(rb) : unchanged(i)>>,
           <<"C08:TagifyResultSharesNoTagListAttrsOrMetadataWithOriginal", Shared(ha, src, dst) = {}>>,
           \* ... nor with anything else that exists already (an earlier result, a copy): otherwise mutating that
           \* object would change what this result - a copy of the original - shows
           <<"C08:TagifyResultSharesNothingWithEarlierResults", \A j \in 1..Len(rb) : Shared(ha, rb[j], dst) = {}>>,
           <<"C09:TagifyChildrenAreTheExpansionSplicedInPlace", Struct(ha, IdRef(dst)) = Expand(sb[ev.root])>>,
           <<"C08:TagifyEqualsOriginalWhenNothingToExpand",
                \* the library's == is also required, except that bare MetadataNode objects (a base class
                \* without value) compare by identity; dependencies are compared by value
                ~HasTfy(hb, src) => (Struct(ha, IdRef(dst)) = sb[ev.root]
                                     /\ ((\A m \in Reach(hb, src) : hb[m].t # "meta") => ev.eq))>>,
           <<"C08:TagifyIsAFixedPoint", ~HasTfy(hb, src) => Struct(ha, IdRef(dst)) = sb[ev.root]>>,
           <<"C08:RepeatingGivesIdenticalResults", prevres # "" => ev.res = prevres>> >>
    \* a tagify() call observed while the repository's own tests ran (objects of unknown classes are opaque)
    [] ev.op = "tagify_observed" ->
        << <<"C08:ReadOnlyOperationLeavesEveryReachableObjectStructurallyUnchanged", \A i \in 1..Len(rb) : unchanged(i)>>,
           <<"C08:TagifyResultSharesNoTagListAttrsOrMetadataWithOriginal", Shared(ha, rb[ev.root], ev.newroot) = {}>> >>
    [] ev.op = "mutate" ->
        << <<"C08:MutatingOneOfOriginalAndTagifyResultNeverAffectsTheOther",
               \A j \in 1..Len(rb) : (j # ev.via /\ Related(pairs, ev.via, j)) => unchanged(j)>> >>
    [] ev.op \in {"jsx_tagify", "jsx_str"} ->
        << <<"C20:ConversionLeavesTheComponentAndEverythingReachableUnchanged", \A i \in 1..Len(rb) : unchanged(i)>>,
           <<"C20:ConvertingAgainGivesTheSameResult", prevres # "" => ev.res = prevres>>,
           \* a component's tagify() is a tagify(): the returned tree shares no tag, list, attribute map or metadata node
           <<"C08:TagifyResultSharesNoTagListAttrsOrMetadataWithOriginal",
                ev.newroot # 0 => Shared(ha, rb[1], ev.newroot) = {}>>,
           <<"C08:TagifyResultSharesNothingWithEarlierResults",
                (ev.newroot # 0 /\ ev.prevnew # 0) => Shared(ha, ev.prevnew, ev.newroot) = {}>> >>
    [] OTHER ->
        << <<"C08:ReadOnlyOperationLeavesEveryReachableObjectStructurallyUnchanged",
               ev.ro => \A i \in 1..Len(rb) : unchanged(i)>>,
           <<"C08:RepeatingGivesIdenticalResults", (ev.ro /\ prevres # "") => ev.res = prevres>>,
           <<"C08:StrReprReprHtmlAndRenderAgree", ev.op = "views" => ev.eq>>,
           <<"C09:UnexpandedObjectRaisesInsteadOfEmitting", ev.op = "rawstring" => ev.eq>> >>

\* prevres: the digest of the last result of the same (op, root) since the last mutation
RECURSIVE PrevRes(_, _, _)
PrevRes(evs, i, j) ==
  IF j = 0 THEN ""
  ELSE IF evs[j].op = "mutate" THEN ""
  ELSE IF evs[j].op = evs[i].op /\ evs[j].root = evs[i].root /\ evs[j].arg = evs[i].arg THEN evs[j].res
  ELSE PrevRes(evs, i, j - 1)

RECURSIVE Walk(_, _, _, _)
Walk(e, i, pairs, acc) ==
  IF i > Len(e.events) THEN acc
  ELSE LET ev == e.events[i]
           hb == IF i = 1 THEN e.heap0 ELSE e.events[i - 1].heap
           rb == IF i = 1 THEN e.roots0 ELSE e.events[i - 1].roots
           f == FailList(EventClauses(hb, rb, pairs, PrevRes(e.events, i, i - 1), ev))
           pairs2 == IF ev.op = "tagify" THEN Append(pairs, <<ev.root, Len(ev.roots)>>) ELSE pairs
       IN Walk(e, i + 1, pairs2, acc \o f)

\* abstract equality for the == clause: attributes as a set, everything else positional
RECURSIVE AbsEq(_, _)
AbsEq(a, b) ==
  /\ a.f = b.f
  /\ CASE a.f = "T" -> /\ a.name = b.name /\ a.ws = b.ws
                       /\ {a.attrs[i] : i \in 1..Len(a.attrs)} = {b.attrs[i] : i \in 1..Len(b.attrs)}
                       /\ Len(a.kids) = Len(b.kids) /\ \A i \in 1..Len(a.kids) : AbsEq(a.kids[i], b.kids[i])
       [] a.f = "L" -> Len(a.kids) = Len(b.kids) /\ \A i \in 1..Len(a.kids) : AbsEq(a.kids[i], b.kids[i])
       [] a.f \in {"S", "H"} -> a.v = b.v
       [] a.f = "D" -> a.name = b.name /\ a.v = b.v
       [] OTHER -> FALSE           \* foreign objects are never equal to library objects

Clauses(e) ==
  IF e.k = "eq" THEN FailList(<< <<"C08:EqualityIsStructural", e.got = AbsEq(e.a, e.b)>>,
                                 <<"C08:EqualityIsStructural(reflected)", e.got2 = AbsEq(e.a, e.b)>> >>)
  ELSE IF e.k = "expand" THEN
     LET ev == e.events[1]
         built == Forget(Struct(ev.heap, IdRef(ev.newroot))) = Forget(Expand(Struct(e.heap0, IdRef(e.roots0[1]))))
     IN FailList(<< <<"DRIFT:HarnessBuiltTheExpandedTree", built>>,
                    <<"C09:RenderProducesWhatTheExpandedTreeProduces", built => ev.eq>>,
                    <<"C09:ReportsTheDependenciesCarriedByTheExpansions", built => ev.eqdeps>>,
                    <<"C09:HTMLDocumentRenderExpandsTheSameWay", built => ev.eqdoc>>,
                    <<"C08:ReadOnlyOperationLeavesEveryReachableObjectStructurallyUnchanged",
                         Struct(ev.heap, IdRef(ev.roots[1])) = Struct(e.heap0, IdRef(e.roots0[1]))>> >>)
  \* a boolean observation whose expected value is TRUE, named by the driver (directed scenarios)
  ELSE IF e.k = "obs" THEN FailList(<< <<e.p \o ":" \o e.name, e.holds>> >>)
  ELSE Walk(e, 1, <<>>, <<>>)

Judge(e) == [fail |-> Clauses(e)]
Init == tid \in 1..NChunks /\ verdict = "run"
Check == /\ verdict = "run" /\ verdict' = "done" /\ LogChunk(tid, Judge) /\ UNCHANGED tid
Spec == Init /\ [][Check]_vars
=============================================================================
