----------------------------- MODULE JsonTrace -----------------------------
(* ser : {text, equal, headSame}   one dependency serialised and read back     *)
(* doc : {segs, deps, rest, rendered, headEmpty, untouched, insEv, docEv}      *)
(* mode: {depsEqual, markupEqual}  json render mode + HTMLTextDocument         *)
EXTENDS TraceBase, DepJsonOps, ParseBackOps
VARIABLES tid, verdict
vars == <<tid, verdict>>

CloseTag == <<60, 47, 115, 99, 114, 105, 112, 116, 62>>
Inner(text) == LET gt == {i \in 1..Len(text) : text[i] = GTc} IN
               IF gt = {} \/ Len(text) < 9 THEN <<>> ELSE SubSeq(text, Min(gt) + 1, Len(text) - 9)
Marks(s) == [i \in 1..Len(s) |-> <<s[i].k, IF s[i].k = "text" THEN s[i].id ELSE 0>>]
Pairs(s) == [i \in 1..Len(s) |-> <<s[i][1], s[i][2]>>]

Clauses(e) ==
  CASE e.k = "ser" ->
        << <<"C13:SerialisedElementEndsWithItsOwnClosingTag",
               Len(e.text) >= 9 /\ LowerS(SubSeq(e.text, Len(e.text) - 8, Len(e.text))) = CloseTag>>,
           <<"C13:NoEndTagLikeTextInsideSerialisedElement", NoEndTagInside(Inner(e.text))>>,
           <<"C13:RecoveredDependencyEqualsOriginal", e.equal /\ e.headSame>> >>
    [] e.k = "doc" ->
        LET want == Rendered(e.segs)
            wantMarks == Marks(SelectSeq(want, LAMBDA g : ~(g.k = "head" /\ e.headEmpty))) IN
        << <<"C13:OncePerDistinctSerialisationInOrderOfAppearance", e.deps = ExtractDeps(e.segs, 1, {})>>,
           <<"C13:EverySerialisedScriptRemovedOtherTextUntouched", Pairs(e.rest) = Marks(Remaining(e.segs)) /\ e.untouched>>,
           <<"C13:OnlyTheFirstPlaceholderIsReplaced", Pairs(e.rendered) = wantMarks>>,
           \* compared only when the recovered dependencies have distinct names: HTMLDocument resolves by name, while
           \* the statement keeps one dependency per distinct serialisation (the same dependency serialised twice
           \* with different indentation is recovered twice)
           <<"C13:InsertedMarkupIsWhatHTMLDocumentPutsInHead",
               (FirstPh(Remaining(e.segs)) # 0 /\ LET d == ExtractDeps(e.segs, 1, {}) IN \A i, j \in 1..Len(d) : d[i] = d[j] => i = j)
                  => Agree(e.docEv, e.insEv) = 0>> >>
    \* a boolean observation of a directed scenario (several documents, a shared `deps=` list), expected TRUE
    [] e.k = "obs" -> << <<"C13:" \o e.name, e.holds>> >>
    [] e.k = "mode" ->
        << <<"C13:JsonModePlusHTMLTextDocumentEquivalentToDirectRendering", e.depsEqual /\ Agree(e.wantEv, e.gotEv) = 0>> >>
Judge(e) == [fail |-> FailList(Clauses(e))]
Init == tid \in 1..NChunks /\ verdict = "run"
Check == /\ verdict = "run" /\ verdict' = "done" /\ LogChunk(tid, Judge) /\ UNCHANGED tid
Spec == Init /\ [][Check]_vars
=============================================================================
