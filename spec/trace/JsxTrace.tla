------------------------------ MODULE JsxTrace ------------------------------
(* conv  : {tree, parsed, expr, deps, nbare, reactFirst, reactFiles}            *)
(*   expr = the React.createElement expression of the emitted script, read by   *)
(*   the harness's recursive-descent reader into the El format of JsxOps        *)
(* allow : {allowed, given, raised}                                             *)
EXTENDS TraceBase, JsxOps, FiniteSets
VARIABLES tid, verdict
vars == <<tid, verdict>>
SetOfSeq(s) == {s[i] : i \in 1..Len(s)}
Count(s, x) == Cardinality({i \in 1..Len(s) : s[i] = x})
\* equal as multisets: every node found is carried, once per occurrence, nothing else
BagEq(s, t) == Len(s) = Len(t) /\ \A x \in SetOfSeq(s) \cup SetOfSeq(t) : Count(s, x) = Count(t, x)
Clauses(e) ==
  IF e.k = "conv" THEN
    << <<"C20:ExpressionIsReadable", e.parsed>>,
       <<"C20:ExpressionMirrorsTheComponent", e.parsed => e.expr = El(e.tree)>>,
       <<"C20:CarriesReactAndReactDomWhoseFilesExist", e.reactFirst /\ e.reactFiles>>,
       <<"C20:SurfacesEveryMetadataNodeReachable",
            BagEq(e.deps, MetaOf(e.tree)) /\ e.nbare = BareMeta(e.tree)>> >>
  ELSE
    << <<"C20:PropOutsideAllowListRejectedAtConstruction",
           e.raised = (\E i \in 1..Len(e.given) : e.given[i] \notin SetOfSeq(e.allowed))>> >>
Judge(e) == [fail |-> FailList(Clauses(e))]
Init == tid \in 1..NChunks /\ verdict = "run"
Check == /\ verdict = "run" /\ verdict' = "done" /\ LogChunk(tid, Judge) /\ UNCHANGED tid
Spec == Init /\ [][Check]_vars
=============================================================================
