----------------------------- MODULE ListTrace -----------------------------
(***************************************************************************)
(* Validates recorded histories of child operations on a real TagList / on *)
(* a real Tag's children.  One record = one history:                       *)
(*   hist : <<[op, exc, post, recv, resIsList, nodeok, childok, lentSame]>> *)
(* post = projection of the (possibly rebound) receiver after the step,    *)
(* recv = projection of the object that was the receiver before the step.  *)
(* Each step is judged from the logged state before it (trace-validation   *)
(* style: state := logged post), with the declarative ApplySpec.           *)
(***************************************************************************)
EXTENDS TraceBase, NormalizeOps
VARIABLES tid, verdict
vars == <<tid, verdict>>

NonMutating == {"Add", "RAdd", "Slice", "Repeat"}
Nodes(p) == [i \in 1..Len(p) |-> Node(p[i].k, p[i].v)]

StepClauses(before, h) ==
  LET s == ApplySpec(before, h.op)  post == Nodes(h.post) IN
  << <<"C14:ChildrenAreDepthFirstFlatteningOfArguments", (s.exc = "none" /\ h.exc = "none") => post = s.items>>,
     <<"C14:UnsupportedTypeRaisesTypeError", s.exc = "TypeError" => h.exc = "TypeError">>,
     <<"C14:FailedOperationLeavesListUnchanged", h.exc # "none" => post = before>>,
     <<"C14:SupportedArgumentsAreAccepted", s.exc = "none" => h.exc = "none">>,
     <<"C14:EveryStoredElementIsATagNode", h.nodeok /\ AllNodes(post)>>,
     <<"C14:IsTagChildAcceptsWhatTheOperationsAccept", h.exc = "none" => h.childok>>,
     <<"C14:NonMutatingOperatorsReturnTagListAndLeaveOperandUnchanged",
          (h.op.act \in NonMutating /\ h.exc = "none") => (h.resIsList /\ Nodes(h.recv) = before)>>,
     \* a TagList that was handed in as an argument is a list of its own: operations on other lists are not
     \* operations on it, so its children are still the flattening of what IT was built from
     <<"C14:ListsHandedInAsArgumentsKeepTheirOwnChildren", h.lentSame>>,
     <<"DRIFT:NormalizeCodeShape", Apply(before, h.op) = s>> >>

RECURSIVE Walk(_, _, _)
Walk(hist, i, acc) ==
  IF i > Len(hist) THEN acc
  ELSE LET before == IF i = 1 THEN <<>> ELSE Nodes(hist[i - 1].post) IN
       Walk(hist, i + 1, acc \o FailList(StepClauses(before, hist[i])))

Judge(e) == LET f == Walk(e.hist, 1, <<>>) IN [fail |-> f]
Init == tid \in 1..NChunks /\ verdict = "run"
Check == /\ verdict = "run" /\ verdict' = "done" /\ LogChunk(tid, Judge) /\ UNCHANGED tid
Spec == Init /\ [][Check]_vars
=============================================================================
