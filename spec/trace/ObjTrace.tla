------------------------------ MODULE ObjTrace ------------------------------
(***************************************************************************)
(* Validates recorded object histories (harness/objhist.py) against the    *)
(* object-history machine of ObjOps: {heap0, roots0, steps}, each step     *)
(* [a, heap, roots, twin, exc] with the whole projected object graph after *)
(* it.  State := logged graph (trace-validation style); the prediction for *)
(* a step is Apply(logged graph before, action).                           *)
(***************************************************************************)
EXTENDS TraceBase, ObjOps
VARIABLES tid, verdict
vars == <<tid, verdict>>

ListActs == {"append", "insert0", "insert", "setitem", "extend2", "share", "pop", "clear", "relist"}
AttrActs == {"setattr", "delattr", "update"}
StepClauses(hb, rb, st) ==
  LET pred == Apply(hb, rb, st.a)
      same == View(st.heap, st.roots) = View(pred.h, pred.roots) /\ st.exc = "none"
  IN << <<"C14:ChildOperationsChangeExactlyTheirOwnList", st.a.act \in ListActs => same>>,
        <<"C15:AttributesChangeOnlyThroughTheirOwnTag", st.a.act \in AttrActs => same>>,
        <<"C08:OnlyTheObjectAnOperationIsAppliedToChanges", st.a.act \notin (ListActs \cup AttrActs) => same>>,
        \* whatever history the original has: what tagify() returns shares no tag, list, attribute map or metadata node with it
        <<"C08:TagifyResultSharesNoTagListAttrsOrMetadataWithOriginal",
             (st.a.act = "tagify" /\ st.exc = "none" /\ Len(st.roots) = Len(rb) + 1)
                => Shared(st.heap, st.a.obj, st.roots[Len(st.roots)]) = {}>>,
        \* a tree that has a history is still just a tree: it renders like one built afresh with the same structure
        <<"C01:ATreeWithAHistoryRendersLikeAFreshOne", st.twin>>,
        <<"C05:ATreeWithAHistoryRendersLikeAFreshOne", st.twin>>,
        <<"C06:ATreeWithAHistoryRendersLikeAFreshOne", st.twin>> >>
RECURSIVE Walk(_, _, _)
Walk(e, i, acc) ==
  IF i > Len(e.steps) THEN acc
  ELSE LET hb == IF i = 1 THEN e.heap0 ELSE e.steps[i - 1].heap
           rb == IF i = 1 THEN e.roots0 ELSE e.steps[i - 1].roots
       IN Walk(e, i + 1, acc \o FailList(StepClauses(hb, rb, e.steps[i])))
Judge(e) == [fail |-> Walk(e, 1, <<>>)]
Init == tid \in 1..NChunks /\ verdict = "run"
Check == /\ verdict = "run" /\ verdict' = "done" /\ LogChunk(tid, Judge) /\ UNCHANGED tid
Spec == Init /\ [][Check]_vars
=============================================================================
