----------------------------- MODULE ParseTrace -----------------------------
(* {tree, events}: tree = projection of the real object that was rendered,  *)
(* events = what the HTML tokenizer made of the rendered string.            *)
EXTENDS TraceBase, ParseBackOps
VARIABLES tid, verdict
vars == <<tid, verdict>>

RECURSIVE NormTree(_)
NormTree(x) == x   \* records arrive with all fields present

Clauses(e) ==
  LET exp == ElementView(e.tree)  at == Agree(exp, e.events) IN
  << <<"C01:TokenizesToTheSameElementTree", at = 0>>,
     <<"C01:NoForeignTokens", \A i \in 1..Len(e.events) : e.events[i].e # "other">>,
     <<"C01:WellNested", Nested(e.events, 1, <<>>)>> >>

Judge(e) == [fail |-> FailList(Clauses(e)), at |-> Agree(ElementView(e.tree), e.events)]
Init == tid \in 1..NChunks /\ verdict = "run"
Check == /\ verdict = "run" /\ verdict' = "done" /\ LogChunk(tid, Judge) /\ UNCHANGED tid
Spec == Init /\ [][Check]_vars
=============================================================================
