---------------------------- MODULE RenderTrace ----------------------------
(***************************************************************************)
(* Validates token sequences recorded from the real renderer.              *)
(*  render : {tree, indent, eol, addws, toks, toks0}                        *)
(*     toks  = layout tokens scanned from x.get_html_string(indent, eol)    *)
(*     toks0 = the same for the tree built without its metadata nodes       *)
(* Property clauses use only the property-level operators of RenderOps     *)
(* (Inline, Lines/Flat, Strip); the code-shaped RTag/RList only feed the   *)
(* DRIFT clause.                                                           *)
(***************************************************************************)
EXTENDS TraceBase, RenderOps

VARIABLES tid, verdict
vars == <<tid, verdict>>

Toks(ts) == [i \in 1..Len(ts) |-> <<ts[i][1], ts[i][2]>>]

Clauses(e) ==
  LET out == Toks(e.toks)  out0 == Toks(e.toks0)  nt == NoTails(e.tree) IN
  << <<"C05:InlineSubtreeRendersAsExactConcatenation", C05i(e.tree, out)>>,
     <<"C05:NothingBetweenInlineSiblings", C05ii(e.tree, out)>>,
     <<"C05:LayoutOnlyAtBlockTagEdges", nt => C05iii(e.tree, out)>>,
     <<"C06:LineAndIndentRule", e.addws => C06Holds(e.tree, e.indent, e.eol, out)>>,
     <<"C07:MetadataLeavesNoTrace", out = out0 /\ e.strSame>>,
     <<"DRIFT:RenderOps", out = Render(e.tree, e.indent, e.eol, e.addws)>> >>

Judge(e) == [fail |-> FailList(Clauses(e))]
Init == tid \in 1..NChunks /\ verdict = "run"
Check == /\ verdict = "run" /\ verdict' = "done" /\ LogChunk(tid, Judge) /\ UNCHANGED tid
Spec == Init /\ [][Check]_vars
=============================================================================
